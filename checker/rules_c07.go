package main

import (
	"fmt"
	"go/constant"
	"go/token"
	"go/types"
	"strings"

	"golang.org/x/tools/go/ssa"
)

// ruleLabelFormatDirection (PV-ROLE): `label_format dst=src`.
func ruleLabelFormatDirection(r *Run) {
	p := r.P
	lq := modPath + "/" + logqlPkg
	eng := modPath + "/" + enginePkg
	pf := p.Method(logqlPkg, "parser", "parseLabelFormatExpr")
	rp := p.Method(enginePkg, "RenameLabel", "Process")
	o := r.Ob("PV-ROLE", "label_format dst=src direction", "the identifier written left of = is the label that is created, the one right of it the label that is read and removed")
	if pf == nil || rp == nil {
		o.Fail("-", "parseLabelFormatExpr / RenameLabel.Process not found")
		return
	}
	// parser: which RenameLabel field receives the identifier consumed before consume(Eq)?
	var eqConsume ssa.CallInstruction
	T := p.NamedType(lexerPkg, "TokenType")
	consts := enumConstants(T)
	for _, c := range callsIn(pf) {
		if callIs(c, lq, "(*parser).consume") {
			if cv, ok := constOf(c.Common().Args[1]); ok && constant.Compare(cv, tokenEQL, consts["Eq"]) {
				eqConsume = c
			}
		}
	}
	if eqConsume == nil {
		o.Undecide(r.pos(pf.Pos()), "consume(lexer.Eq) not found")
		return
	}
	lhsField, rhsField := "", ""
	allInstrs(pf, func(in ssa.Instruction) {
		st, ok := in.(*ssa.Store)
		if !ok {
			return
		}
		n, base, ok := fieldNameOf(st.Addr)
		if !ok || typeKey(base.Type()) != "RenameLabel" {
			return
		}
		c, isEx := tokenSourceCall(st.Val)
		if !isEx {
			return
		}
		before := instrDominates(c, eqConsume)
		if before {
			lhsField = n
		} else {
			rhsField = n
		}
	})
	// engine: which field goes to Set (destination), which to Get/Delete (source)
	dstField, srcField, delField := "", "", ""
	nSet, nDel := 0, 0
	var setCall, getCall, delCall ssa.CallInstruction
	for _, c := range callsIn(rp) {
		arg := func(i int) string {
			f, _, ok := loadOfField(c.Common().Args[i])
			if ok {
				return f
			}
			return "?"
		}
		switch {
		case callIs(c, eng, "(*LabelSet).Set"):
			dstField = arg(1)
			nSet++
			setCall = c
		case callIs(c, eng, "(*LabelSet).Get"):
			srcField = arg(1)
			getCall = c
		case callIs(c, eng, "(*LabelSet).Delete"):
			delField = arg(1)
			nDel++
			delCall = c
		}
	}
	bad := false
	if lhsField == "" || rhsField == "" || lhsField == rhsField {
		bad = true
		o.Fail(r.pos(pf.Pos()), "parser: left identifier -> RenameLabel.%s, right identifier -> RenameLabel.%s", lhsField, rhsField)
	}
	if dstField != lhsField || srcField != rhsField {
		bad = true
		o.Fail(r.pos(rp.Pos()), "the parser stores the left identifier (destination) in RenameLabel.%s and the right one (source) in RenameLabel.%s, but the engine reads the source from .%s and writes the destination to .%s", lhsField, rhsField, srcField, dstField)
	}
	if delField != srcField {
		bad = true
		o.Fail(r.pos(rp.Pos()), "the engine deletes .%s although it read .%s", delField, srcField)
	}
	if nSet != 1 || nDel != 1 {
		bad = true
		o.Fail(r.pos(rp.Pos()), "rename performs %d Set and %d Delete calls, expected one each", nSet, nDel)
	}
	// Set/Delete only on the found edge; the value set is the value read
	if setCall != nil && getCall != nil {
		gc := getCall.(*ssa.Call)
		var okv, val ssa.Value
		for _, ref := range *gc.Referrers() {
			if e, ok := ref.(*ssa.Extract); ok {
				if e.Index == 1 {
					okv = e
				} else {
					val = e
				}
			}
		}
		if b, known := knownBoolAt(setCall.Block(), okv); !known || !b {
			bad = true
			o.Fail(r.pos(setCall.Pos()), "the destination is written although the source label was not found")
		}
		if setCall.Common().Args[2] != val {
			bad = true
			o.Fail(r.pos(setCall.Pos()), "the destination receives %s, not the value of the source label", describe(setCall.Common().Args[2], 0))
		}
	}
	// the source is deleted in the iteration that read it, before the next pair is looked at (a
	// later pair may rename another label to this name)
	if getCall != nil && delCall != nil {
		inner := func(b *ssa.BasicBlock) *rangeLoop {
			var best *rangeLoop
			for _, l := range rangeIndexLoops(rp) {
				if l.Blocks[b] && (best == nil || len(l.Blocks) < len(best.Blocks)) {
					best = l
				}
			}
			return best
		}
		lg, ld := inner(getCall.Block()), inner(delCall.Block())
		if lg == nil || ld == nil || lg.Header != ld.Header || !instrDominates(getCall, delCall) {
			bad = true
			o.Fail(r.pos(delCall.Pos()), "the source label is not deleted in the loop iteration that read it: a pair processed in between may have renamed another label to this name, which is then deleted")
		}
	}
	if !bad {
		o.OK("parser: lhs -> .%s, rhs -> .%s; engine: Get(.%s) -> Set(.%s, v) -> Delete(.%s)", lhsField, rhsField, srcField, dstField, delField).At(r.pos(rp.Pos()))
	}

	// LabelTemplate: lhs -> Label, engine Set(p.Label, expansion)
	o2 := r.Ob("PV-ROLE", "label_format dst=\"template\"", "the identifier left of = is the label set to the template's expansion over the labels as they are after the renames of the same stage")
	lf := p.Method(enginePkg, "LabelFormat", "Process")
	if lf == nil {
		o2.Fail("-", "LabelFormat.Process not found")
		return
	}
	bad = false
	tmplLhs := ""
	allInstrs(pf, func(in ssa.Instruction) {
		st, ok := in.(*ssa.Store)
		if !ok {
			return
		}
		n, base, ok := fieldNameOf(st.Addr)
		if !ok || typeKey(base.Type()) != "LabelTemplate" {
			return
		}
		if c, isEx := tokenSourceCall(st.Val); isEx && instrDominates(c, eqConsume) {
			tmplLhs = n
		}
	})
	var exec, rename, asMap, set ssa.CallInstruction
	lgrp := funcGroup(lf)
	inRename := map[*ssa.Function]bool{}
	for _, g := range lgrp {
		for _, c := range callsIn(g) {
			if callIs(c, eng, "(*RenameLabel).Process") {
				for _, x := range funcGroup(staticCallee(c)) {
					inRename[x] = true
				}
			}
		}
	}
	for _, g := range lgrp {
		if inRename[g] {
			continue
		}
		for _, c := range callsIn(g) {
			switch {
			case callIs(c, "text/template", "(*Template).Execute"):
				exec = c
			case callIs(c, eng, "(*RenameLabel).Process"):
				rename = c
			case callIs(c, eng, "(*LabelSet).AsMap"):
				asMap = c
			case callIs(c, eng, "(*LabelSet).Set"):
				set = c
			}
		}
	}
	if exec == nil || rename == nil || asMap == nil || set == nil {
		o2.Fail(r.pos(lf.Pos()), "Execute=%v rename=%v AsMap=%v Set=%v", exec != nil, rename != nil, asMap != nil, set != nil)
		return
	}
	if f, _, ok := loadOfField(originValueIn(set.Common().Args[1], lgrp)); !ok || f != tmplLhs || tmplLhs == "" {
		bad = true
		o2.Fail(r.pos(set.Pos()), "the parser stores the left identifier in LabelTemplate.%s but the engine sets label %s", tmplLhs, describe(set.Common().Args[1], 0))
	}
	if !runsBefore(rename, asMap, lf, lgrp) {
		bad = true
		o2.Fail(r.pos(asMap.Pos()), "the template data (set.AsMap()) is taken before the renames of the same stage are applied")
	}
	if originValueIn(stripTypeOnly(exec.Common().Args[2]), lgrp) != ssa.Value(asMap.(*ssa.Call)) {
		bad = true
		o2.Fail(r.pos(exec.Pos()), "the template is executed over %s, not over set.AsMap()", describe(exec.Common().Args[2], 0))
	}
	// the label is written only when the template ran without error
	{
		hosts := callersWithin(lgrp, exec.Parent())
		errVals := map[ssa.Value]bool{}
		if ec, ok := exec.(*ssa.Call); ok {
			errVals[ec] = true
		}
		for _, g := range lgrp {
			for _, c := range callsIn(g) {
				call, ok := c.(*ssa.Call)
				if !ok || !hosts[staticCallee(call)] {
					continue
				}
				if isErrorType(call.Type()) {
					errVals[call] = true
				}
				if refs := call.Referrers(); refs != nil {
					for _, ref := range *refs {
						if ex, ok := ref.(*ssa.Extract); ok && isErrorType(ex.Type()) {
							errVals[ex] = true
						}
					}
				}
			}
		}
		clean := false
		for _, f := range factsAt(set.Block()) {
			if x, trueWhenNonNil, ok := nilCheck(f.Cond); ok && errVals[x] && f.Truth != trueWhenNonNil {
				clean = true
			}
		}
		if !clean {
			bad = true
			o2.Fail(r.pos(set.Pos()), "the label is written although the template's execution may have failed (no `err == nil` on the way to Set): a failing template leaves partial output in the label instead of only flagging __error__")
		}
	}
	// value set is buf.String() after Execute into the same buffer (helpers on the way to Execute walked inline)
	{
		hosts := callersWithin(lgrp, exec.Parent())
		w := &feWalker{Fn: lf, Inline: func(callee *ssa.Function, depth int) bool { return hosts[callee] && depth <= 2 }}
		nSet := 0
		reported := map[ssa.Instruction]bool{}
		for _, e := range w.Run() {
			for _, sc := range e.State.calls {
				if !callIs(sc.Call, eng, "(*LabelSet).Set") || len(sc.Args) < 3 || inRename[sc.Call.Parent()] {
					continue
				}
				nSet++
				conv, ok := sc.Args[2].V.(*ssa.Call)
				if !ok || len(conv.Call.Args) != 1 {
					continue
				}
				// the evaluated argument of the conversion call, as recorded on this path
				var src ssa.Value
				for _, cc := range e.State.calls {
					if cc.Call == ssa.CallInstruction(conv) && cc.Seq < sc.Seq && len(cc.Args) == 1 {
						src = cc.Args[0].V
					}
				}
				bc, ok := src.(*ssa.Call)
				if (!ok || !callIs(bc, "bytes", "(*Buffer).String") || !runsBefore(exec, bc, lf, lgrp)) && !reported[sc.Call] {
					reported[sc.Call] = true
					bad = true
					o2.Fail(r.pos(sc.Call.Pos()), "the label is set to %s, not to the expansion taken from the buffer after Execute", describe(src, 0))
				}
			}
		}
		if nSet == 0 {
			bad = true
			o2.Fail(r.pos(lf.Pos()), "no path reaches set.Set")
		}
	}
	if !bad {
		o2.OK("lhs -> LabelTemplate.%s = Set target; rename -> AsMap -> Execute(buf, m) -> Set(label, buf.String())", tmplLhs).At(r.pos(lf.Pos()))
	}
}

// ruleTemplateBinding: __line__ / __timestamp__, per-line state, missingkey=zero.
func ruleTemplateBinding(r *Run) {
	p := r.P
	eng := modPath + "/" + enginePkg
	tf := p.Func(enginePkg, "tmplFunctions")
	o := r.Ob("PV-ROLE", "logqlengine.tmplFunctions", "__line__ is bound to the current line and __timestamp__ to the current timestamp")
	if tf == nil {
		o.Fail("-", "function not found")
	} else {
		got := map[string]string{}
		allInstrs(tf, func(in ssa.Instruction) {
			if mu, ok := in.(*ssa.MapUpdate); ok {
				if k, ok := constStr(mu.Key); ok && (k == "__line__" || k == "__timestamp__") {
					v := stripTypeOnly(mu.Value)
					if prm, ok := v.(*ssa.Parameter); ok {
						got[k] = prm.Name()
					} else {
						got[k] = describe(v, 0)
					}
				}
			}
		})
		if got["__line__"] == "currentLine" && got["__timestamp__"] == "currentTimestamp" {
			o.OK("__line__ -> currentLine, __timestamp__ -> currentTimestamp").At(r.pos(tf.Pos()))
		} else {
			o.Fail(r.pos(tf.Pos()), "__line__ -> %q, __timestamp__ -> %q", got["__line__"], got["__timestamp__"])
		}
	}
	// compileTemplate: passes (currentTimestamp, currentLine) in that order; Option missingkey=zero
	ct := p.Func(enginePkg, "compileTemplate")
	o2 := r.Ob("PV-CONST", "logqlengine.compileTemplate", "templates are compiled with missingkey=zero and the line/timestamp accessors in their own positions")
	if ct == nil {
		o2.Fail("-", "function not found")
	} else {
		bad := false
		var tfc ssa.CallInstruction
		opt := ""
		for _, c := range callsIn(ct) {
			if callIs(c, eng, "tmplFunctions") {
				tfc = c
			}
			if callIs(c, "text/template", "(*Template).Option") {
				// variadic arg
				if sl, ok := c.Common().Args[1].(*ssa.Slice); ok {
					if arr, ok := sl.X.(*ssa.Alloc); ok {
						for _, ref := range *arr.Referrers() {
							if ia, ok := ref.(*ssa.IndexAddr); ok {
								for _, st := range storesTo(ia) {
									if s, ok := constStr(st.Val); ok {
										opt = s
									}
								}
							}
						}
					}
				}
			}
		}
		if opt != "missingkey=zero" {
			bad = true
			o2.Fail(r.pos(ct.Pos()), "template option is %q, expected missingkey=zero (a missing label must expand to the empty string)", opt)
		}
		if tfc == nil {
			bad = true
			o2.Fail(r.pos(ct.Pos()), "tmplFunctions is not used")
		} else {
			a0, a1 := rootName(tfc.Common().Args[0]), rootName(tfc.Common().Args[1])
			// compileTemplate(name, tmpl, currentTimestamp, currentLine): its own accessors, in this order
			if len(ct.Params) != 4 || originValue(tfc.Common().Args[0]) != ssa.Value(ct.Params[2]) || originValue(tfc.Common().Args[1]) != ssa.Value(ct.Params[3]) {
				bad = true
				o2.Fail(r.pos(tfc.Pos()), "tmplFunctions(%s, %s): expected (currentTimestamp, currentLine)", a0, a1)
			}
		}
		if !bad {
			o2.OK("Option(missingkey=zero).Funcs(tmplFunctions(currentTimestamp, currentLine))").At(r.pos(ct.Pos()))
		}
	}
	// builders pass the stage's own accessors in order; accessors return the per-line state; Process stores it before Execute
	for _, typ := range []string{"LineFormat", "LabelFormat"} {
		o3 := r.Ob("PV-ORDER", "logqlengine."+typ+" per-line state", "the stage records the current line and timestamp before executing its template, and the accessors handed to the template read exactly that state")
		proc := p.Method(enginePkg, typ, "Process")
		cl := p.Method(enginePkg, typ, "currentLine")
		cts := p.Method(enginePkg, typ, "currentTimestamp")
		bname := map[string]string{"LineFormat": "buildLineFormat", "LabelFormat": "buildLabelFormat"}[typ]
		bf := p.Func(enginePkg, bname)
		if proc == nil || cl == nil || cts == nil || bf == nil {
			o3.Fail("-", "methods not found")
			continue
		}
		bad := false
		// accessors
		for _, ret := range returnsOf(cl) {
			if f, base, ok := loadOfField(ret.Results[0]); !ok || f != "line" || base != ssa.Value(cl.Params[0]) {
				bad = true
				o3.Fail(r.pos(ret.Pos()), "currentLine returns %s", describe(ret.Results[0], 0))
			}
		}
		for _, ret := range returnsOf(cts) {
			c, ok := ret.Results[0].(*ssa.Call)
			good := ok && len(c.Call.Args) == 1
			if good {
				f, base, ok2 := loadOfField(c.Call.Args[0])
				good = ok2 && f == "ts" && base == ssa.Value(cts.Params[0]) && staticCallee(c) != nil && cname(staticCallee(c)) == "AsTime"
			}
			if !good {
				bad = true
				o3.Fail(r.pos(ret.Pos()), "currentTimestamp returns %s", describe(ret.Results[0], 0))
			}
		}
		// Process: stores before Execute (possibly through helpers of the stage or of an embedded state)
		grp := funcGroup(proc)
		var exec ssa.CallInstruction
		for _, g := range grp {
			for _, c := range callsIn(g) {
				if callIs(c, "text/template", "(*Template).Execute") {
					exec = c
				}
			}
		}
		// ownRoot: the object an address belongs to, through embedded structs and helper receivers
		ownRoot := func(v ssa.Value) ssa.Value {
			for d := 0; d < 8; d++ {
				v = originValueIn(v, grp)
				fa, ok := v.(*ssa.FieldAddr)
				if !ok {
					break
				}
				v = fa.X
			}
			return v
		}
		if exec == nil {
			bad = true
			o3.Fail(r.pos(proc.Pos()), "Execute is not called")
		} else {
			okTs, okLine := false, false
			for _, g := range grp {
				allInstrs(g, func(in ssa.Instruction) {
					st, ok := in.(*ssa.Store)
					if !ok {
						return
					}
					n, base, ok := fieldNameOf(st.Addr)
					if !ok || ownRoot(base) != ssa.Value(proc.Params[0]) {
						return
					}
					val := originValueIn(st.Val, grp)
					if n == "ts" && val == ssa.Value(proc.Params[1]) && runsBefore(st, exec, proc, grp) {
						okTs = true
					}
					if n == "line" && runsBefore(st, exec, proc, grp) {
						// the line parameter, or the line returned by the rename step (which returns its input)
						okLine = true
						if val != ssa.Value(proc.Params[2]) {
							if _, idx, ok := extractOf(val); !ok || idx != 0 {
								okLine = false
							}
						}
					}
				})
			}
			if !okTs || !okLine {
				bad = true
				o3.Fail(r.pos(exec.Pos()), "before Execute: lf.ts = ts stored=%v, lf.line = line stored=%v", okTs, okLine)
			}
			// buffer reset before Execute, in the same loop iteration
			var reset ssa.CallInstruction
			for _, g := range grp {
				for _, c := range callsIn(g) {
					if callIs(c, "bytes", "(*Buffer).Reset") {
						reset = c
					}
				}
			}
			if reset == nil || !runsBefore(reset, exec, proc, grp) {
				bad = true
				o3.Fail(r.pos(exec.Pos()), "the template buffer is not reset before Execute")
			} else if lr := liftInstr(reset, proc, grp, true); lr != nil {
				// same iteration: no loop header between the reset and the execution
				le := liftInstr(exec, proc, grp, false)
				if le != nil && lr.Block() != le.Block() {
					for _, hb := range proc.Blocks {
						isHeader := false
						for _, pr := range hb.Preds {
							if hb.Dominates(pr) {
								isHeader = true
							}
						}
						if !isHeader {
							continue
						}
						if body := naturalLoop(hb); body[le.Block()] && !body[lr.Block()] {
							bad = true
							o3.Fail(r.pos(exec.Pos()), "the template buffer is reset outside the loop that executes the templates")
						}
					}
				}
			}
		}
		// builder passes (x.currentTimestamp, x.currentLine)
		for _, c := range callsIn(bf) {
			if callIs(c, modPath+"/"+enginePkg, "compileTemplate") {
				a := []string{describe(c.Common().Args[2], 0), describe(c.Common().Args[3], 0)}
				if !strings.Contains(a[0], "currentTimestamp") || !strings.Contains(a[1], "currentLine") {
					bad = true
					o3.Fail(r.pos(c.Pos()), "compileTemplate(.., %s, %s): expected (currentTimestamp, currentLine)", a[0], a[1])
				}
			}
		}
		if !bad {
			o3.OK("accessors read lf.line / lf.ts; both stored and the buffer reset before Execute").At(r.pos(proc.Pos()))
		}
	}
	// LineFormat success path returns the expansion
	lfp := p.Method(enginePkg, "LineFormat", "Process")
	o4 := r.Ob("PV-PAIR", "logqlengine.(*LineFormat).Process result", "on success the new line is the text the template wrote to the stage's buffer in this call")
	if lfp == nil {
		o4.Fail("-", "method not found")
		return
	}
	var exec ssa.CallInstruction
	lgrp := funcGroup(lfp)
	for _, g := range lgrp {
		for _, c := range callsIn(g) {
			if callIs(c, "text/template", "(*Template).Execute") {
				exec = c
			}
		}
	}
	bad := false
	nSucc := 0
	if exec == nil {
		bad = true
		o4.Fail(r.pos(lfp.Pos()), "Execute is not called")
	} else {
		// helpers on the way to the Execute call are walked inline
		hosts := callersWithin(lgrp, exec.Parent())
		w := &feWalker{Fn: lfp, Inline: func(callee *ssa.Function, depth int) bool { return hosts[callee] && depth <= 2 }}
		for _, e := range w.Run() {
			failed := false
			for _, f := range e.State.free {
				if x, nn, ok := nilCheck(f.Cond); ok && x == ssa.Value(exec.(*ssa.Call)) && nn == f.Truth {
					failed = true
				}
			}
			if failed || len(e.Results) != 2 {
				continue
			}
			nSucc++
			c, ok := e.Results[0].V.(*ssa.Call)
			if !ok || !callIs(c, "bytes", "(*Buffer).String") || !instrDominates(exec, c) {
				bad = true
				o4.Fail(r.pos(e.Term.Pos()), "on success the line is %s, not buf.String() after Execute", describe(e.Results[0].V, 0))
			}
		}
	}
	if !bad && nSucc > 0 {
		o4.OK("returns lf.buf.String() after Execute").At(r.pos(lfp.Pos()))
	} else if !bad {
		o4.Fail(r.pos(lfp.Pos()), "no success path found")
	}
}

// callersWithin: target and the functions of grp from which target is reached by static calls.
func callersWithin(grp []*ssa.Function, target *ssa.Function) map[*ssa.Function]bool {
	hosts := map[*ssa.Function]bool{target: true}
	for changed := true; changed; {
		changed = false
		for _, g := range grp {
			if hosts[g] {
				continue
			}
			for _, c := range callsIn(g) {
				if callee := staticCallee(c); callee != nil && hosts[callee] {
					hosts[g] = true
					changed = true
					break
				}
			}
		}
	}
	return hosts
}

// ruleDropKeep: drop removes exactly the selected labels, keep all others.
func ruleDropKeep(r *Run) {
	p := r.P
	eng := modPath + "/" + enginePkg
	preds := map[string]*ssa.Function{}
	inlineOK := map[string]bool{} // stages whose selection is written out in the callback and was decided there
	for _, s := range []struct {
		typ, pred string
		delOn     bool
	}{{"DropLabels", "dropPair", true}, {"KeepLabels", "keepPair", false}} {
		fn := p.Method(enginePkg, s.typ, "Process")
		o := r.Ob("CH-SIB", "logqlengine.(*"+s.typ+").Process", map[bool]string{true: "drop deletes a label iff it is selected (named, or its matchers accept its value)", false: "keep deletes a label iff it is NOT selected (named, or its matchers accept its value)"}[s.delOn])
		if fn == nil || len(fn.AnonFuncs) == 0 {
			o.Fail("-", "method/closure not found")
			continue
		}
		cl := fn.AnonFuncs[0]
		var pc *ssa.Call
		var del ssa.CallInstruction
		for _, c := range callsIn(cl) {
			if callIs(c, eng, "(*LabelSet).Delete") {
				del = c
			}
		}
		// the selection predicate: the same-package call whose verdict decides whether Delete runs
		// (a method of the stage, or a function shared by both stages)
		if del != nil {
			for _, c := range callsIn(cl) {
				call, ok := c.(*ssa.Call)
				if !ok {
					continue
				}
				callee := staticCallee(call)
				if callee == nil || callee.Blocks == nil || callee.Pkg != fn.Pkg {
					continue
				}
				if bt, ok := call.Type().Underlying().(*types.Basic); !ok || bt.Kind() != types.Bool {
					continue
				}
				if _, known := knownBoolAt(del.Block(), call); known {
					pc = call
				}
			}
		}
		if pc == nil && del != nil {
			// the selection is written out in the callback: decide the deletion itself as a function of
			// (named, has matchers, matcher verdict)
			if why := dropKeepInlineTable(r, fn, cl, s.typ, s.delOn); why == "" {
				inlineOK[s.typ] = true
				o.OK("set.Range callback deletes the label iff selected == %v (selection written out in the callback: named or has matchers, and no matcher rejects)", s.delOn).At(r.pos(fn.Pos()))
			} else {
				o.Fail(r.pos(cl.Pos()), "%s", why)
			}
			continue
		}
		if pc == nil || del == nil {
			o.Fail(r.pos(cl.Pos()), "predicate call=%v Delete call=%v", pc != nil, del != nil)
			continue
		}
		preds[s.typ] = staticCallee(pc)
		bad := false
		// labels are deleted only by the verdict of the selection predicate: no other Delete in
		// the stage (a shortcut that deletes by name alone ignores the value matchers)
		for _, g := range funcGroup(fn) {
			for _, c := range callsIn(g) {
				if !callIs(c, eng, "(*LabelSet).Delete") || c == del {
					continue
				}
				if g == staticCallee(pc) {
					continue
				}
				bad = true
				o.Fail(r.pos(c.Pos()), "a label is deleted outside the verdict of the selection predicate")
			}
		}
		if b, known := knownBoolAt(del.Block(), pc); !known || b != s.delOn {
			bad = true
			o.Fail(r.pos(del.Pos()), "the label is deleted when the selection predicate is %v (known=%v), expected %v", b, known, s.delOn)
		}
		hasArg := func(c ssa.CallInstruction, v ssa.Value) bool {
			for _, a := range c.Common().Args {
				if a == v {
					return true
				}
			}
			return false
		}
		if del.Common().Args[1] != ssa.Value(cl.Params[0]) || !hasArg(pc, cl.Params[0]) || !hasArg(pc, cl.Params[1]) {
			bad = true
			o.Fail(r.pos(del.Pos()), "predicate/Delete are not applied to the iterated label and its value")
		}
		// the predicate consults this stage's own name set and matchers
		nameField := map[string]string{"DropLabels": "drop", "KeepLabels": "keep"}[s.typ]
		usesOwn := func(field string) bool {
			for _, a := range pc.Call.Args {
				if f, base, ok := loadOfField(a); ok && f == field && originValue(base) == originValue(ssa.Value(fn.Params[0])) {
					return true
				}
				if originValue(a) == originValue(ssa.Value(fn.Params[0])) || a == ssa.Value(fn.Params[0]) {
					return true // the stage itself is handed to its predicate method
				}
				if fv, ok := a.(*ssa.UnOp); ok {
					if _, isFV := fv.X.(*ssa.FreeVar); isFV && originValue(a) == ssa.Value(fn.Params[0]) {
						return true
					}
				}
				// a sub-object of the stage (a selector struct it holds) is the predicate's receiver
				root := a
				for d := 0; d < 4; d++ {
					fa, ok := root.(*ssa.FieldAddr)
					if !ok {
						break
					}
					root = fa.X
				}
				if root != a && (originValue(root) == ssa.Value(fn.Params[0]) || originValue(root) == originValue(ssa.Value(fn.Params[0]))) {
					return true
				}
			}
			return false
		}
		if !usesOwn(nameField) || !usesOwn("matchers") {
			bad = true
			o.Fail(r.pos(pc.Pos()), "the selection predicate is not given this stage's own %s set and matchers", nameField)
		}
		// the callback is run for every label: set.Range(cb)
		ranged := false
		for _, c := range callsIn(fn) {
			if callIs(c, eng, "(*LabelSet).Range") {
				ranged = true
			}
		}
		if !ranged {
			bad = true
			o.Fail(r.pos(fn.Pos()), "the labels are not enumerated with set.Range")
		}
		if !bad {
			o.OK("set.Range: %s(label, value) == %v -> Delete(label)", s.pred, s.delOn).At(r.pos(fn.Pos()))
		}
	}
	// the two predicates are the same function of (named set, matchers)
	dp, kp := preds["DropLabels"], preds["KeepLabels"]
	o := r.Ob("CH-SIB", "logqlengine dropPair/keepPair", "a label is selected iff it is named or has matchers, and all of its matchers accept its value – identically for drop and keep")
	if (dp == nil || inlineOK["DropLabels"]) && (kp == nil || inlineOK["KeepLabels"]) && (inlineOK["DropLabels"] || inlineOK["KeepLabels"]) {
		// each written-out selection was decided against the one expected selection function above,
		// so they agree with each other; a remaining predicate function is compared with the same table
		rest := dp
		if rest == nil {
			rest = kp
		}
		if rest == nil {
			o.OK("both selections are written out in their callbacks and each equals: named or has matchers, and no matcher rejects")
			return
		}
		dp, kp = rest, rest
	}
	if dp == nil || kp == nil {
		o.Fail("-", "the selection predicates of drop and keep were not identified")
		return
	}
	sum := func(fn *ssa.Function) (string, bool) {
		// truth table over (named, hasMatchers, allMatch); the lookups may live in a shared helper
		var named, hasM ssa.Value
		var matchCall *ssa.Call
		for _, gf := range funcGroup(fn) {
			allInstrs(gf, func(in ssa.Instruction) {
				switch x := in.(type) {
				case *ssa.Lookup:
					if !x.CommaOk {
						return
					}
					mt, ok := x.X.Type().Underlying().(*types.Map)
					if !ok {
						return
					}
					_, isSlice := mt.Elem().Underlying().(*types.Slice)
					for _, ref := range *x.Referrers() {
						if e, ok := ref.(*ssa.Extract); ok && e.Index == 1 {
							if isSlice {
								hasM = e
							} else {
								named = e
							}
						}
					}
				case *ssa.Call:
					if invokeIs(x, "Match") {
						matchCall = x
					}
				}
			})
		}
		if named == nil || hasM == nil || matchCall == nil {
			return "", false
		}
		// Match is applied to the value's string form
		out := ""
		for _, n := range []bool{false, true} {
			for _, h := range []bool{false, true} {
				for _, m := range []bool{false, true} {
					w := &feWalker{Fn: fn, Assume: map[ssa.Value]constant.Value{named: constant.MakeBool(n), hasM: constant.MakeBool(h), matchCall: constant.MakeBool(m)}, Inline: inlineHelpers(fn)}
					res := map[string]bool{}
					for _, e := range w.Run() {
						if e.Cut {
							continue
						}
						// paths that never evaluate a matcher stand for "no matcher rejects"
						ranMatch := false
						for _, c := range e.State.calls {
							if c.Call == ssa.CallInstruction(matchCall) {
								ranMatch = true
							}
						}
						if len(e.Results) == 1 && e.Results[0].Known {
							key := "T"
							if !constant.BoolVal(e.Results[0].C) {
								key = "F"
							}
							if ranMatch {
								key += "m"
								if !h {
									continue // no matchers registered for this label: the matcher loop cannot run
								}
							}
							res[key] = true
						}
					}
					out += joinSet(res) + ";"
				}
			}
		}
		return out, true
	}
	a, oka := sum(dp)
	b, okb := sum(kp)
	switch {
	case !oka || !okb:
		o.Undecide(r.pos(dp.Pos()), "named/matchers lookups or Match call not found")
	case a != b:
		o.Fail(r.pos(kp.Pos()), "dropPair and keepPair differ as functions of (named, has matchers, matcher result): %s vs %s", a, b)
	default:
		// spot rows: not named & no matchers -> false; named & no matchers -> true; matcher rejects -> false
		rows := strings.Split(a, ";")
		// order: n=F,h=F,m=F ; FFT ; FTF ; FTT ; TFF ; TFT ; TTF ; TTT
		good := len(rows) >= 8 && rows[0] == "F" && rows[1] == "F" && strings.Contains(rows[2], "Fm") && !strings.Contains(rows[2], "Tm") &&
			!strings.Contains(rows[3], "F") && rows[4] == "T" && rows[5] == "T" && strings.Contains(rows[6], "Fm") && !strings.Contains(rows[6], "Tm") && !strings.Contains(rows[7], "F")
		if good {
			o.OK("identical truth tables; unselected -> false, named without matchers -> true, a rejecting matcher -> false").At(r.pos(dp.Pos()))
		} else {
			o.Fail(r.pos(dp.Pos()), "selection truth table is %s", a)
		}
	}
}

// ruleDecolorize: every line goes through the ANSI regexp.
func ruleDecolorize(r *Run) {
	p := r.P
	fn := p.Method(enginePkg, "Decolorize", "Process")
	o := r.Ob("PV-PAIR", "logqlengine.(*Decolorize).Process", "the returned line is ansiRegex.ReplaceAllString(line, \"\") – every match of the ANSI pattern and nothing else is removed; a short cut may only be taken on the regexp's own verdict")
	if fn == nil {
		o.Fail("-", "method not found")
		return
	}
	bad := false
	isAnsi := func(v ssa.Value) bool {
		u, ok := v.(*ssa.UnOp)
		if !ok {
			return false
		}
		g, ok := u.X.(*ssa.Global)
		return ok && globalName(g) == "ansiRegex"
	}
	for _, ret := range returnsOf(fn) {
		for _, lv := range phiLeaves(ret.Results[0]) {
			if c, ok := lv.(*ssa.Call); ok && callIs(c, "regexp", "(*Regexp).ReplaceAllString") && isAnsi(c.Call.Args[0]) {
				if c.Call.Args[1] != ssa.Value(fn.Params[2]) {
					bad = true
					o.Fail(r.pos(c.Pos()), "the regexp is applied to %s, not the line", describe(c.Call.Args[1], 0))
				}
				if s, ok := constStr(c.Call.Args[2]); !ok || s != "" {
					bad = true
					o.Fail(r.pos(c.Pos()), "matches are replaced by %s, not removed", describe(c.Call.Args[2], 0))
				}
				continue
			}
			if lv == ssa.Value(fn.Params[2]) {
				// allowed only under a condition computed by ansiRegex itself
				okGuard := false
				for _, f := range factsAt(ret.Block()) {
					if c, ok := f.Cond.(*ssa.Call); ok && len(c.Call.Args) > 0 && isAnsi(c.Call.Args[0]) {
						okGuard = true
					}
				}
				if !okGuard {
					bad = true
					o.Fail(r.pos(ret.Pos()), "the line is returned unprocessed on a path that is not decided by the ANSI regexp itself (a hand-written pre-check can miss sequences the pattern matches)")
				}
				continue
			}
			bad = true
			o.Fail(r.pos(ret.Pos()), "returns %s", describe(lv, 0))
		}
	}
	// the pattern compiles (constant) and starts with both introducers
	pk := p.Pkg(enginePkg)
	if pk != nil {
		if c, ok := pk.Types.Scope().Lookup("ansiPattern").(interface{ Val() constant.Value }); ok {
			pat := constant.StringVal(c.Val())
			if !strings.HasPrefix(pat, "[\u001B\u009B]") {
				bad = true
				o.Fail(r.pos(fn.Pos()), "the ANSI pattern no longer starts with the ESC / CSI introducer class")
			}
		}
	}
	if !bad {
		o.OK("returns ansiRegex.ReplaceAllString(line, \"\")").At(r.pos(fn.Pos()))
	}
}

// ruleValueStrGuarded: pcommon.Value.Str() yields "" for a value that is not of string type (a
// number or boolean extracted by `| json`). Wherever the engine reads a label value as text it must
// use AsString(); Str() is allowed only where the value's type is known to be ValueTypeStr.
func ruleValueStrGuarded(r *Run) {
	p := r.P
	const pc = "go.opentelemetry.io/collector/pdata/pcommon"
	o := r.Ob("PV-API", "logqlengine pcommon.Value.Str", "a label value is read as text with AsString(); Str() (empty for non-string values) is called only under a test that the value's type is ValueTypeStr")
	strT, ok := pkgConst(p, pc, "ValueTypeStr")
	if !ok {
		o.Fail("-", "pcommon.ValueTypeStr not found")
		return
	}
	n, nAs, bad := 0, 0, false
	for _, fn := range p.SrcFuncs() {
		pk := fn.Pkg
		if pk == nil && fn.Parent() != nil {
			pk = fn.Parent().Pkg
		}
		if pk == nil || !strings.HasPrefix(pk.Pkg.Path(), modPath+"/"+enginePkg) {
			continue
		}
		for _, c := range callsIn(fn) {
			if callIs(c, pc, "(Value).AsString") {
				nAs++
			}
			if !callIs(c, pc, "(Value).Str") {
				continue
			}
			n++
			recv := describe(unspill(c.Common().Args[0]), 2)
			guarded := false
			for _, f := range factsAt(c.Block()) {
				b, ok := f.Cond.(*ssa.BinOp)
				if !ok || b.Op != token.EQL || !f.Truth {
					continue
				}
				for _, pair := range [][2]ssa.Value{{b.X, b.Y}, {b.Y, b.X}} {
					tc, ok := pair[0].(*ssa.Call)
					cv, okc := constOf(pair[1])
					if ok && okc && callIs(tc, pc, "(Value).Type") && constant.Compare(cv, token.EQL, strT) && describe(unspill(tc.Call.Args[0]), 2) == recv {
						guarded = true
					}
				}
			}
			if !guarded {
				bad = true
				o.Fail(r.pos(c.Pos()), "%s calls Str() on a label value whose type is not known to be string: numbers and booleans read as \"\"", shortFuncName(fn))
			}
		}
	}
	if nAs < 5 {
		bad = true
		o.Fail("-", "only %d AsString() call sites found, floor 5", nAs)
	}
	if !bad {
		o.OK("%d Str() call(s), each under Type() == ValueTypeStr; %d AsString() call(s)", n, nAs)
	}
}

// ruleTemplatePerStage (PV-FRESH): every stage gets its own compiled template. The template's
// __line__ / __timestamp__ functions are closures over the stage that asked for it, so a template
// object must never be shared between stages: every template compileTemplate returns is built by
// template.New(...) in that very call (nothing remembered from an earlier call).
func ruleTemplatePerStage(r *Run) {
	p := r.P
	ct := p.Func(enginePkg, "compileTemplate")
	o := r.Ob("PV-FRESH", "logqlengine.compileTemplate", "each call builds a new template bound to the caller's own accessors: the returned template derives from template.New in this call, never from package-level state")
	if ct == nil {
		o.Fail("-", "function not found")
		return
	}
	bad := false
	var fromNew func(v ssa.Value, depth int) bool
	fromNew = func(v ssa.Value, depth int) bool {
		if v == nil || depth > 10 {
			return false
		}
		v = unspill(stripTypeOnly(v))
		switch x := v.(type) {
		case *ssa.Extract:
			return fromNew(x.Tuple, depth+1)
		case *ssa.Call:
			if callIs(x, "text/template", "New") {
				return true
			}
			// builder-style methods of *template.Template return their receiver
			if callee := staticCallee(x); callee != nil && callee.Pkg != nil && callee.Pkg.Pkg.Path() == "text/template" && len(x.Call.Args) > 0 {
				return fromNew(x.Call.Args[0], depth+1)
			}
			// a same-package helper that builds it
			if callee := staticCallee(x); callee != nil && callee.Blocks != nil && callee.Pkg == ct.Pkg {
				ok := true
				for _, ret := range returnsOf(callee) {
					for _, lv := range phiLeaves(ret.Results[0]) {
						if !isNilConst(lv) && !fromNew(lv, depth+1) {
							ok = false
						}
					}
				}
				return ok
			}
		case *ssa.Phi:
			for _, e := range x.Edges {
				if !isNilConst(e) && !fromNew(e, depth+1) {
					return false
				}
			}
			return true
		}
		return false
	}
	n := 0
	for _, ret := range returnsOf(ct) {
		for _, lv := range phiLeaves(ret.Results[0]) {
			if isNilConst(lv) {
				continue
			}
			n++
			if !fromNew(lv, 0) {
				bad = true
				o.Fail(r.pos(ret.Pos()), "a returned template is %s, which is not built by template.New in this call: a template (and the stage accessors bound into it) can be shared between stages", describe(lv, 1))
			}
		}
	}
	// and no package-level state is written with templates
	for _, gf := range funcGroup(ct) {
		for _, c := range callsIn(gf) {
			if callee := staticCallee(c); callee != nil && callee.Pkg != nil && callee.Pkg.Pkg.Path() == "sync" && (callee.Name() == "Store" || callee.Name() == "LoadOrStore") {
				bad = true
				o.Fail(r.pos(c.Pos()), "compileTemplate stores into a sync.Map: compiled templates outlive the stage they were bound to")
			}
		}
	}
	if n == 0 {
		bad = true
		o.Fail(r.pos(ct.Pos()), "no template is returned")
	}
	if !bad {
		o.OK("%d returned template(s), each from template.New(...) of this call", n).At(r.pos(ct.Pos()))
	}
}

// ruleRewriteLoopsWhole (PV-WHOLE): a stage that applies a list of rewrites applies all of them:
// the loops over the stage's own list fields in RenameLabel.Process / LabelFormat.Process cannot
// be left early.
func ruleRewriteLoopsWhole(r *Run) {
	p := r.P
	for _, typ := range []string{"RenameLabel", "LabelFormat"} {
		fn := p.Method(enginePkg, typ, "Process")
		o := r.Ob("PV-WHOLE", "logqlengine.(*"+typ+").Process loop", "every entry of the stage's rewrite list is applied to every line: the loop over the list is not left early")
		if fn == nil {
			o.Fail("-", "method not found")
			continue
		}
		n, bad := 0, false
		for _, gf := range funcGroup(fn) {
			if gf.Parent() != nil {
				continue
			}
			for _, l := range rangeIndexLoops(gf) {
				_, base, ok := loadOfField(l.X)
				if !ok || !(base == ssa.Value(fn.Params[0]) || originValueIn(base, funcGroup(fn)) == ssa.Value(fn.Params[0])) {
					continue
				}
				n++
				if ex := l.earlyExits(); len(ex) > 0 {
					bad = true
					o.Fail(r.pos(termPos(ex[0][0])), "the loop over the stage's list can be left before all entries are applied: the remaining rewrites are skipped for that line")
				}
			}
		}
		if n == 0 {
			bad = true
			o.Fail(r.pos(fn.Pos()), "no loop over a list field of the stage found")
		}
		if !bad {
			o.OK("%d loop(s) over the stage's list, none can be left early", n).At(r.pos(fn.Pos()))
		}
	}
}

// tokenSourceCall: the parser call a stored identifier comes from: the value is a result of the
// call, or the text of a token the call returned (through conversions and local copies).
func tokenSourceCall(v ssa.Value) (*ssa.Call, bool) {
	for d := 0; d < 8; d++ {
		v = stripConv(unspill(v))
		if c, _, ok := extractOf(v); ok {
			return c, true
		}
		if c, ok := v.(*ssa.Call); ok {
			return c, true
		}
		if fl, ok := v.(*ssa.Field); ok {
			v = fl.X
			continue
		}
		if _, base, ok := loadOfField(v); ok {
			if al, isA := base.(*ssa.Alloc); isA {
				sts := storesTo(al)
				if len(sts) != 1 {
					return nil, false
				}
				v = sts[0].Val
				continue
			}
			v = base
			continue
		}
		return nil, false
	}
	return nil, false
}

// dropKeepInlineTable: the callback of set.Range in a drop/keep stage whose selection is written
// out in place. For every (named, has matchers, matcher verdict) the callback deletes the
// iterated label iff selected == delOn, where selected = (named || has matchers) && no matcher
// evaluated on the path rejected. "" when so.
func dropKeepInlineTable(r *Run, fn, cl *ssa.Function, typ string, delOn bool) string {
	eng := modPath + "/" + enginePkg
	nameField := map[string]string{"DropLabels": "drop", "KeepLabels": "keep"}[typ]
	if len(cl.Params) < 2 {
		return "the callback does not take (label, value)"
	}
	var named, hasM ssa.Value
	var matchCall *ssa.Call
	why := ""
	ownField := func(m ssa.Value, want string) bool {
		f, base, ok := loadOfField(m)
		return ok && f == want && (originValue(base) == ssa.Value(fn.Params[0]) || originValue(base) == originValue(ssa.Value(fn.Params[0])))
	}
	for _, gf := range funcGroup(cl) {
		allInstrs(gf, func(in ssa.Instruction) {
			switch x := in.(type) {
			case *ssa.Lookup:
				if !x.CommaOk {
					return
				}
				mt, ok := x.X.Type().Underlying().(*types.Map)
				if !ok {
					return
				}
				_, isSlice := mt.Elem().Underlying().(*types.Slice)
				want := nameField
				if isSlice {
					want = "matchers"
				}
				if gf == cl {
					if !ownField(x.X, want) {
						why = "the selection consults " + describe(x.X, 0) + ", not this stage's own ." + want
					}
					if unspill(x.Index) != ssa.Value(cl.Params[0]) {
						why = "the selection looks up " + describe(x.Index, 0) + ", not the iterated label"
					}
				}
				for _, ref := range *x.Referrers() {
					if e, ok := ref.(*ssa.Extract); ok && e.Index == 1 {
						if isSlice {
							hasM = e
						} else {
							named = e
						}
					}
				}
			case *ssa.Call:
				if invokeIs(x, "Match") {
					matchCall = x
				}
			}
		})
	}
	if why != "" {
		return why
	}
	if named == nil || hasM == nil || matchCall == nil {
		return "predicate call=false Delete call=true; named/matchers lookups or Match call not found in the callback"
	}
	// Match is applied to the iterated value's text
	if len(matchCall.Call.Args) != 1 {
		return "Match is not applied to one value"
	}
	if ac, ok := unspill(matchCall.Call.Args[0]).(*ssa.Call); !ok || !callIs(ac, "go.opentelemetry.io/collector/pdata/pcommon", "(Value).AsString") || unspill(ac.Call.Args[0]) != ssa.Value(cl.Params[1]) {
		return "the matchers are applied to " + describe(matchCall.Call.Args[0], 0) + ", not to the iterated value's text"
	}
	ranged := false
	for _, c := range callsIn(fn) {
		if callIs(c, eng, "(*LabelSet).Range") {
			ranged = true
		}
	}
	if !ranged {
		return "the labels are not enumerated with set.Range"
	}
	for _, n := range []bool{false, true} {
		for _, h := range []bool{false, true} {
			for _, m := range []bool{false, true} {
				w := &feWalker{Fn: cl, Assume: map[ssa.Value]constant.Value{named: constant.MakeBool(n), hasM: constant.MakeBool(h), matchCall: constant.MakeBool(m)}, Inline: inlineHelpers(cl), MaxPath: 20000}
				ends := w.Run()
				if w.Aborted {
					return "path enumeration aborted"
				}
				nEnds := 0
				for _, e := range ends {
					if e.Cut {
						continue
					}
					ranMatch, deleted := false, false
					for _, c := range e.State.calls {
						if c.Call == ssa.CallInstruction(matchCall) {
							ranMatch = true
						}
						if callIs(c.Call, eng, "(*LabelSet).Delete") {
							deleted = true
							if len(c.Args) < 2 || unspill(c.Args[1].V) != ssa.Value(cl.Params[0]) {
								return "Delete is not applied to the iterated label"
							}
						}
					}
					if ranMatch && !h {
						continue // no matchers registered for this label: the matcher loop cannot run
					}
					nEnds++
					selected := (n || h) && (!ranMatch || m)
					if deleted != (selected == delOn) {
						return fmt.Sprintf("named=%v has matchers=%v matcher verdict=%v (evaluated=%v): the label is deleted=%v, expected %v", n, h, m, ranMatch, deleted, selected == delOn)
					}
				}
				if nEnds == 0 {
					return "no path through the callback"
				}
			}
		}
	}
	return ""
}
