package main

import (
	"go/constant"
	"go/types"
	"strings"
	"unicode"

	"golang.org/x/tools/go/ssa"
)

const otelPkg = "internal/otelstorage"

// ruleSetErrorFirstWins (PV-FIRST): the first error of a line is kept.
func ruleSetErrorFirstWins(r *Run) {
	p := r.P
	fn := p.Method(enginePkg, "LabelSet", "SetError")
	o := r.Ob("PV-FIRST", "logqlengine.(*LabelSet).SetError", "__error__ and __error_details__ are written only when no __error__ is present yet and the error is non-nil")
	if fn == nil {
		o.Fail("-", "method not found")
		return
	}
	var lk *ssa.Lookup
	allInstrs(fn, func(in ssa.Instruction) {
		if l, ok := in.(*ssa.Lookup); ok && l.CommaOk {
			if s, ok := constStr(stripConv(l.Index)); ok && s == "__error__" {
				lk = l
			}
		}
	})
	if lk == nil {
		o.Fail(r.pos(fn.Pos()), "no presence test of the __error__ label")
		return
	}
	var okv ssa.Value
	for _, ref := range *lk.Referrers() {
		if e, ok := ref.(*ssa.Extract); ok && e.Index == 1 {
			okv = e
		}
	}
	bad := false
	n := 0
	keys := map[string]bool{}
	allInstrs(fn, func(in ssa.Instruction) {
		mu, ok := in.(*ssa.MapUpdate)
		if !ok {
			return
		}
		n++
		if b, known := knownBoolAt(mu.Block(), okv); !known || b {
			bad = true
			o.Fail(r.pos(mu.Pos()), "an error label is overwritten although __error__ is already set")
		}
		nonNil := false
		for _, f := range factsAt(mu.Block()) {
			if x, nn, ok := nilCheck(f.Cond); ok && x == ssa.Value(fn.Params[2]) && nn == f.Truth {
				nonNil = true
			}
		}
		if !nonNil {
			bad = true
			o.Fail(r.pos(mu.Pos()), "an error label is written without checking err != nil")
		}
		if s, ok := constStr(stripConv(mu.Key)); ok {
			keys[s] = true
		}
	})
	if !keys["__error__"] || !keys["__error_details__"] {
		bad = true
		o.Fail(r.pos(fn.Pos()), "SetError does not write both __error__ and __error_details__")
	}
	if !bad {
		o.OK("%d stores, on the miss edge under err != nil", n).At(r.pos(fn.Pos()))
	}
}

// ruleSanitiserSites (PV-API): every external key that becomes a label goes through KeyToLabel.
func ruleSanitiserSites(r *Run) {
	p := r.P
	otel := modPath + "/" + otelPkg
	isSanitised := func(v ssa.Value, key ssa.Value) bool {
		v = stripConv(v)
		c, ok := v.(*ssa.Call)
		if !ok || !callIs(c, otel, "KeyToLabel") {
			return false
		}
		return key == nil || stripConv(c.Call.Args[0]) == key
	}
	// getLabels: range ctr.Labels -> labels[KeyToLabel(label)] = value
	{
		fn := p.Func(dockerlogPkg, "getLabels")
		o := r.Ob("PV-API", "dockerlog.getLabels docker labels", "every Docker label is stored under KeyToLabel(its key) with its own value, after the fixed container_* labels")
		if fn == nil {
			o.Fail("-", "function not found")
		} else {
			var nx *ssa.Next
			allInstrs(fn, func(in ssa.Instruction) {
				if n, ok := in.(*ssa.Next); ok {
					nx = n
				}
			})
			if nx == nil {
				o.Fail(r.pos(fn.Pos()), "no range over ctr.Labels")
			} else {
				rng := nx.Iter.(*ssa.Range)
				if f, base, ok := loadOfField(rng.X); !ok || f != "Labels" || spillParam(base) != ssa.Value(fn.Params[0]) {
					o.Fail(r.pos(rng.Pos()), "the loop ranges over %s, not ctr.Labels", describe(rng.X, 0))
				} else {
					var k, v ssa.Value
					for _, ref := range *nx.Referrers() {
						if e, ok := ref.(*ssa.Extract); ok {
							switch e.Index {
							case 1:
								k = e
							case 2:
								v = e
							}
						}
					}
					loop := naturalLoop(nx.Block())
					n := 0
					bad := false
					var dockerStore *ssa.MapUpdate
					for b := range loop {
						for _, in := range b.Instrs {
							if mu, ok := in.(*ssa.MapUpdate); ok {
								n++
								dockerStore = mu
								if !isSanitised(mu.Key, k) {
									bad = true
									o.Fail(r.pos(mu.Pos()), "a Docker label is stored under %s, not KeyToLabel(key)", describe(mu.Key, 0))
								}
								if mu.Value != v {
									bad = true
									o.Fail(r.pos(mu.Pos()), "a Docker label is stored with value %s, not its own value", describe(mu.Value, 0))
								}
							}
						}
					}
					if n != 1 {
						bad = true
						o.Fail(r.pos(fn.Pos()), "expected one store per Docker label, found %d", n)
					}
					// the fixed labels are written before the loop (Docker labels win on collision, as documented by the selector example)
					if dockerStore != nil {
						allInstrs(fn, func(in ssa.Instruction) {
							mu, ok := in.(*ssa.MapUpdate)
							if !ok || loop[mu.Block()] {
								return
							}
							if mu.Map == dockerStore.Map || describe(mu.Map, 0) == describe(dockerStore.Map, 0) {
								if blockReaches(nx.Block(), mu.Block()) && mu.Block() != nx.Block() {
									bad = true
									o.Fail(r.pos(mu.Pos()), "a fixed container label is written after the Docker labels and overwrites a Docker label of the same sanitised name: {sanitised(k)=\"v\"} would no longer select the container")
								}
							} else {
								bad = true
								o.Fail(r.pos(mu.Pos()), "fixed and Docker labels are written to different maps; which one wins on a name collision is not decided here")
							}
						})
					}
					if !bad {
						o.OK("labels[KeyToLabel(k)] = v for every Docker label, after the fixed labels").At(r.pos(fn.Pos()))
					}
				}
			}
		}
	}
	// LabelSet.SetAttrs callback and json extractAll
	for _, s := range []struct {
		rel, recv, fn, desc string
	}{{enginePkg, "*LabelSet", "SetAttrs", "record attribute"}, {enginePkg, "", "extractAll", "JSON"}} {
		fn := resolveFn(p, s.rel, s.recv, s.fn)
		if fn == nil && s.recv == "" {
			fn = jsonExtractRole(p, s.fn)
		}
		o := r.Ob("PV-API", "logqlengine."+s.fn+" keys", "every "+s.desc+" key becomes a label only through KeyToLabel, unconditionally")
		var cl *ssa.Function
		if fn != nil && len(fn.AnonFuncs) > 0 {
			cl = fn.AnonFuncs[0]
		} else if fn != nil {
			// the per-key callback is a named function or a method value handed to the iteration
			for _, c := range callsIn(fn) {
				for _, a := range c.Common().Args {
					if _, isSig := a.Type().Underlying().(*types.Signature); !isSig {
						continue
					}
					if f, _ := predicateOf(a); f != nil && f.Blocks != nil && pkgOfFunc(f) == pkgOfFunc(fn) && cl == nil {
						cl = f
					}
				}
			}
		}
		if fn == nil || cl == nil {
			o.Fail("-", "function/closure not found")
			continue
		}
		var keyParam ssa.Value
		for _, prm := range cl.Params {
			if isStringType(prm.Type()) {
				keyParam = prm
			}
		}
		bad := false
		n := 0
		for _, c := range callsIn(cl) {
			if !callIs(c, modPath+"/"+enginePkg, "(*LabelSet).Set") {
				continue
			}
			n++
			lbl := c.Common().Args[1]
			ok := false
			for _, lv := range phiLeaves(stripConv(lbl)) {
				if isSanitised(lv, nil) {
					kc := stripConv(lv).(*ssa.Call)
					if unspill(stripConv(kc.Call.Args[0])) == keyParam || stripConv(kc.Call.Args[0]) == keyParam {
						ok = true
						continue
					}
				}
				ok = false
				break
			}
			if !ok {
				bad = true
				o.Fail(r.pos(c.Pos()), "a label is set under %s: on some path the key does not pass through KeyToLabel", describe(lbl, 0))
			}
		}
		if n == 0 {
			bad = true
			o.Fail(r.pos(cl.Pos()), "no Set call found")
		}
		if !bad {
			o.OK("Set(Label(KeyToLabel(key)), value)").At(r.pos(cl.Pos()))
		}
	}
}

// ---------------------------------------------------------------------------
// FE-CLASS: per-rune behaviour of KeyToLabel and of the identifier predicates

func unicodeHook(w *feWalker, st *feState, v ssa.Value) (constant.Value, bool) {
	c, ok := v.(*ssa.Call)
	if !ok {
		return nil, false
	}
	pkg, name := calleePkgName(c)
	if pkg != "unicode" || len(c.Call.Args) != 1 {
		return nil, false
	}
	a, ok := w.eval(st, c.Call.Args[0])
	if !ok {
		return nil, false
	}
	r64, _ := constant.Int64Val(a)
	r := rune(r64)
	switch name {
	case "IsLetter":
		return constant.MakeBool(unicode.IsLetter(r)), true
	case "IsDigit":
		return constant.MakeBool(unicode.IsDigit(r)), true
	case "IsNumber":
		return constant.MakeBool(unicode.IsNumber(r)), true
	case "IsSpace":
		return constant.MakeBool(unicode.IsSpace(r)), true
	case "IsUpper":
		return constant.MakeBool(unicode.IsUpper(r)), true
	case "IsLower":
		return constant.MakeBool(unicode.IsLower(r)), true
	}
	return nil, false
}

// rune representatives: both sides of every ASCII class boundary plus non-ASCII letters/digits/symbols.
var classRunes = []rune{0, ' ', '-', '.', '/', '0', '5', '9', ':', '@', 'A', 'M', 'Z', '[', '^', '_', '`', 'a', 'm', 'z', '{', '~', 0x7f,
	0xe9 /* é */, 0xdf /* ß */, 0x0663 /* ٣ arabic-indic digit */, 0x20ac /* € */, 0x4e2d /* 中 */, 0xfffd}

func runeClass(r rune) string {
	switch {
	case r >= '0' && r <= '9':
		return "digit"
	case r >= 'a' && r <= 'z' || r >= 'A' && r <= 'Z' || r == '_':
		return "start"
	}
	return "other"
}

func ruleKeyToLabel(r *Run) {
	p := r.P
	fn := p.Func(otelPkg, "KeyToLabel")
	o := r.Ob("FE-CLASS", "otelstorage.KeyToLabel", "per character: letters, digits and _ are kept (a leading digit gets a _ prefix), every other character becomes _; a key that is already a valid name is returned unchanged")
	if fn == nil {
		o.Fail("-", "function not found")
		return
	}
	// the two rune loops: in KeyToLabel, the slow one possibly in a helper of it
	var nexts []*ssa.Next
	for _, gf := range funcGroup(fn) {
		if gf.Parent() != nil {
			continue
		}
		for _, b := range gf.Blocks {
			for _, in := range b.Instrs {
				if n, ok := in.(*ssa.Next); ok && n.IsString {
					nexts = append(nexts, n)
				}
			}
		}
	}
	inl := inlineHelpers(fn)
	if len(nexts) != 2 {
		o.Undecide(r.pos(fn.Pos()), "expected a fast and a slow loop over the key's runes, found %d string loops: the function is not the two-phase algorithm this rule understands", len(nexts))
		return
	}
	fast, slow := nexts[0], nexts[1]
	switch {
	case fast.Parent() == fn && slow.Parent() == fn:
		if slow.Block().Dominates(fast.Block()) {
			fast, slow = slow, fast
		}
	case slow.Parent() == fn:
		fast, slow = slow, fast
	case fast.Parent() != fn:
		o.Undecide(r.pos(fn.Pos()), "KeyToLabel itself has no loop over the key's runes")
		return
	}
	sfn := slow.Parent() // the function that holds the slow loop
	ex := func(n *ssa.Next, i int) ssa.Value {
		for _, ref := range *n.Referrers() {
			if e, ok := ref.(*ssa.Extract); ok && e.Index == i {
				return e
			}
		}
		return nil
	}
	builderCalls := func(e *feEnd, until map[*ssa.BasicBlock]bool) (events []string, reached *ssa.BasicBlock) {
		stopAt := len(e.State.trail)
		for i, b := range e.State.trail {
			if i > 0 && until[b] {
				stopAt = i
				reached = b
				break
			}
		}
		maxSeq := 1 << 30
		if stopAt < len(e.State.trailSeq) {
			maxSeq = e.State.trailSeq[stopAt]
		}
		for _, c := range e.State.calls {
			if c.Seq > maxSeq {
				continue
			}
			callee := staticCallee(c.Call)
			if callee == nil || callee.Pkg == nil || callee.Pkg.Pkg.Path() != "strings" {
				continue
			}
			switch cname(callee) {
			case "WriteString":
				if c.Args[1].Known && c.Args[1].C.Kind() == constant.String {
					if sv := constant.StringVal(c.Args[1].C); sv != "" {
						events = append(events, "write:"+sv)
					}
				} else if s, ok := constStr(c.Call.Common().Args[1]); ok {
					events = append(events, "write:"+s)
				} else if sl, ok := c.Args[1].V.(*ssa.Slice); ok && sl.Low == nil && sl.High != nil {
					events = append(events, "copyprefix")
				} else if sl, ok := c.Call.Common().Args[1].(*ssa.Slice); ok && sl.Low == nil && sl.High != nil {
					events = append(events, "copyprefix")
				} else {
					events = append(events, "write:?"+describe(c.Call.Common().Args[1], 0))
				}
			case "WriteRune":
				if c.Args[1].Known {
					rv, _ := constant.Int64Val(c.Args[1].C)
					events = append(events, "rune:"+string(rune(rv)))
				} else {
					events = append(events, "rune:?")
				}
			case "WriteByte":
				if c.Args[1].Known {
					bv, _ := constant.Int64Val(c.Args[1].C)
					events = append(events, "byte:"+string(rune(bv)))
				} else {
					events = append(events, "byte:?")
				}
			}
		}
		return events, reached
	}
	bad := false
	// ---- fast loop
	fOK, fIdx, fRune := ex(fast, 0), ex(fast, 1), ex(fast, 2)
	if fOK == nil || fRune == nil {
		o.Undecide(r.pos(fn.Pos()), "fast loop does not read the runes")
		return
	}
	stops := map[*ssa.BasicBlock]bool{fast.Block(): true, slow.Block(): true}
	for _, ch := range classRunes {
		for _, first := range []bool{true, false} {
			assume := map[ssa.Value]constant.Value{fOK: constant.MakeBool(true), fRune: constant.MakeInt64(int64(ch))}
			if fIdx != nil {
				if first {
					assume[fIdx] = constant.MakeInt64(0)
				} else {
					assume[fIdx] = constant.MakeInt64(3)
				}
			}
			w := &feWalker{Fn: fn, Assume: assume, Hook: unicodeHook, Inline: inl}
			// start right after the Next in the fast header
			ends := w.RunFrom(fast.Block(), nil)
			got := map[string]bool{}
			for _, e := range ends {
				ev, reached := builderCalls(e, stops)
				where := "return"
				switch reached {
				case fast.Block():
					where = "continue"
				case slow.Block():
					where = "slow"
					// what the slow loop then ranges over: the whole key after the "_" prefix, the
					// key from the offending character on (key[i:]) after the copied prefix
					if rng, ok := slow.Iter.(*ssa.Range); ok {
						rv := unspill(w.evalVal(e.State, rng.X).V)
						switch x := rv.(type) {
						case *ssa.Parameter:
							if x == fn.Params[0] {
								where = "slow(key)"
							}
						case *ssa.Slice:
							if unspill(x.X) == ssa.Value(fn.Params[0]) && x.High == nil && x.Low != nil && fIdx != nil && (x.Low == fIdx || unspill(x.Low) == fIdx) {
								where = "slow(key[i:])"
							} else {
								where = "slow(" + describe(rv, 1) + ")"
							}
						default:
							where = "slow(" + describe(rv, 1) + ")"
						}
					}
				}
				got[strings.Join(append(ev, where), ",")] = true
			}
			want := ""
			switch cls := runeClass(ch); {
			case cls == "digit" && first:
				want = "write:_,slow(key)"
			case cls == "digit" || cls == "start":
				want = "continue"
			default:
				want = "copyprefix,slow(key[i:])"
			}
			if g := joinSet(got); g != want {
				bad = true
				o.Fail(r.pos(fn.Pos()), "fast path, character %q (U+%04X) %s: behaviour %q, expected %q", ch, ch, map[bool]string{true: "at the start", false: "not at the start"}[first], g, want)
			}
		}
	}
	// after copyprefix the slow loop runs over key[i:]; after the digit prefix over the whole key: checked through the slow loop's ranged value
	// ---- slow loop
	sOK, sRune := ex(slow, 0), ex(slow, 2)
	if sOK == nil || sRune == nil {
		o.Undecide(r.pos(fn.Pos()), "slow loop does not read the runes")
		return
	}
	for _, ch := range classRunes {
		assume := map[ssa.Value]constant.Value{sOK: constant.MakeBool(true), sRune: constant.MakeInt64(int64(ch))}
		w := &feWalker{Fn: sfn, Assume: assume, Hook: unicodeHook, Inline: inl}
		got := map[string]bool{}
		for _, e := range w.RunFrom(slow.Block(), nil) {
			ev, reached := builderCalls(e, map[*ssa.BasicBlock]bool{slow.Block(): true})
			where := "return"
			if reached == slow.Block() {
				where = "continue"
			}
			got[strings.Join(append(ev, where), ",")] = true
		}
		want := "byte:_,continue"
		if runeClass(ch) != "other" {
			want = "rune:" + string(ch) + ",continue"
		}
		if g := joinSet(got); g != want {
			bad = true
			o.Fail(r.pos(fn.Pos()), "slow path, character %q (U+%04X): behaviour %q, expected %q", ch, ch, g, want)
		}
	}
	// ---- exits: fast loop exhausted -> the key itself; slow loop exhausted -> label.String()
	{
		w := &feWalker{Fn: fn, Assume: map[ssa.Value]constant.Value{fOK: constant.MakeBool(false)}, Hook: unicodeHook, Inline: inl}
		for _, e := range w.Run() {
			if len(e.Results) == 1 && e.Results[0].V != ssa.Value(fn.Params[0]) {
				bad = true
				o.Fail(r.pos(e.Term.Pos()), "a key made only of valid characters is returned as %s, not unchanged", describe(e.Results[0].V, 0))
			}
		}
		w2 := &feWalker{Fn: sfn, Assume: map[ssa.Value]constant.Value{sOK: constant.MakeBool(false)}, Hook: unicodeHook, Inline: inl}
		for _, e := range w2.RunFrom(slow.Block(), nil) {
			if len(e.Results) == 1 {
				c, ok := e.Results[0].V.(*ssa.Call)
				if !ok || !callIs(c, "strings", "(*Builder).String") {
					bad = true
					o.Fail(r.pos(e.Term.Pos()), "after the slow path the function returns %s, not the built label", describe(e.Results[0].V, 0))
				}
			}
		}
	}
	if !bad {
		o.OK("%d rune representatives x {first, not first}: fast and slow tables, both exits agree", len(classRunes)).At(r.pos(fn.Pos()))
	}
}

// ruleIdentPredicates: what "valid label name" means to the lexer and to IsValidLabel.
func ruleIdentPredicates(r *Run) {
	p := r.P
	for _, s := range []struct {
		name string
		want func(r rune) bool
	}{
		{"IsIdentStartRune", func(c rune) bool { return runeClass(c) == "start" }},
		{"IsIdentRune", func(c rune) bool { return runeClass(c) != "other" }},
		{"IsDigit", func(c rune) bool { return runeClass(c) == "digit" }},
		{"IsLetter", func(c rune) bool { return runeClass(c) == "start" && c != '_' }},
	} {
		fn := p.Func("internal/lexerql", s.name)
		o := r.Ob("FE-CLASS", "lexerql."+s.name, "the lexer's notion of identifier characters is ASCII letters, digits and _ – the same alphabet KeyToLabel produces")
		if fn == nil {
			o.Fail("-", "function not found")
			continue
		}
		bad := false
		for _, ch := range classRunes {
			if ch > 0x7f {
				// the generic predicate is instantiated for byte and rune; non-ASCII only matters for rune
			}
			w := &feWalker{Fn: fn, Assume: map[ssa.Value]constant.Value{fn.Params[0]: constant.MakeInt64(int64(ch))}, Hook: unicodeHook}
			ends := w.Run()
			got, known := false, len(ends) > 0
			for i, e := range ends {
				if len(e.Results) != 1 || !e.Results[0].Known {
					known = false
					break
				}
				b := constant.BoolVal(e.Results[0].C)
				if i > 0 && b != got {
					known = false
				}
				got = b
			}
			if !known {
				bad = true
				o.Undecide(r.pos(fn.Pos()), "not decidable for %q", ch)
				break
			}
			if got != s.want(ch) {
				bad = true
				o.Fail(r.pos(fn.Pos()), "%s(%q U+%04X) = %v, expected %v", s.name, ch, ch, got, s.want(ch))
			}
		}
		if !bad {
			o.OK("%d representatives agree", len(classRunes)).At(r.pos(fn.Pos()))
		}
	}
	// IsValidLabel uses those predicates: first char through IsIdentStartRune, the rest through IsIdentRune (dots only if allowed)
	fn := p.Func(logqlPkg, "IsValidLabel")
	o := r.Ob("PV-API", "logql.IsValidLabel", "a label name is valid iff it is non-empty, starts with an identifier-start character and continues with identifier characters (plus . when dots are allowed)")
	if fn == nil {
		o.Fail("-", "function not found")
		return
	}
	usesStart, usesRest, emptyCheck := false, false, false
	for _, c := range callsIn(fn) {
		if callee := staticCallee(c); callee != nil {
			n := cname(callee)
			if callee.Origin() != nil {
				n = callee.Origin().Name()
			}
			if n == "IsIdentStartRune" {
				usesStart = true
			}
			if n == "IsIdentRune" {
				usesRest = true
			}
		}
	}
	allInstrs(fn, func(in ssa.Instruction) {
		if b, ok := in.(*ssa.BinOp); ok {
			if c, ok := b.X.(*ssa.Call); ok {
				if bi, ok := c.Call.Value.(*ssa.Builtin); ok && bi.Name() == "len" {
					if z, ok := constInt(b.Y); ok && z == 0 {
						emptyCheck = true
					}
				}
			}
		}
	})
	if usesStart && usesRest && emptyCheck {
		o.OK("len == 0 rejected; IsIdentStartRune(first); IsIdentRune(rest)").At(r.pos(fn.Pos()))
	} else {
		o.Fail(r.pos(fn.Pos()), "empty check=%v, IsIdentStartRune=%v, IsIdentRune=%v", emptyCheck, usesStart, usesRest)
	}
}
