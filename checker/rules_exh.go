package main

import (
	"go/types"
	"sort"
	"strings"

	"golang.org/x/tools/go/ssa"
)

// ruleTypeSwitchExhaustive (CH-EXH): a dispatch on the dynamic type of an
// interface value covers every first-party implementer, or the uncovered ones
// end in a non-nil error – never in a panic and never in a silent success.
func ruleTypeSwitchExhaustive(r *Run, rel, recv, fnName string, ifaceRel, ifaceName string, floor int, silentOK bool) {
	p := r.P
	fn := resolveFn(p, rel, recv, fnName)
	name := shortRel(rel) + "." + fnName
	anchor := r.Ob("ANCHOR", name, "anchor function resolves")
	anchor.Trivial = true
	if fn == nil {
		anchor.Fail("-", "function not found")
		return
	}
	anchor.OK("resolved").At(r.pos(fn.Pos()))
	iface := p.NamedType(ifaceRel, ifaceName)
	if iface == nil {
		r.Ob("ANCHOR", ifaceName, "interface resolves").Fail("-", "not found")
		return
	}
	// the switched value: operand of comma-ok type assertions whose static type is the interface
	var sw ssa.Value
	asserted := map[string]bool{}
	allInstrs(fn, func(in ssa.Instruction) {
		ta, ok := in.(*ssa.TypeAssert)
		if !ok || !ta.CommaOk {
			return
		}
		if !types.Identical(ta.X.Type(), iface) && !(types.IsInterface(ta.X.Type()) && types.Implements(iface, ta.X.Type().Underlying().(*types.Interface))) {
			return
		}
		if sw == nil {
			sw = ta.X
		}
		if ta.X == sw {
			asserted[shortType(ta.AssertedType)] = true
		}
	})
	o0 := r.Ob("CH-EXH", name, "dispatch on the dynamic type of a "+ifaceName+" found")
	if sw == nil {
		o0.Undecide(r.pos(fn.Pos()), "no type switch on a %s value found", ifaceName)
		return
	}
	impls := implementersOf(p, ifaceRel, ifaceName)
	if len(impls) < floor {
		o0.Fail(r.pos(fn.Pos()), "%d implementers of %s found, floor %d", len(impls), ifaceName, floor)
		return
	}
	o0.OK("%d implementers, %d asserted types", len(impls), len(asserted)).At(r.pos(fn.Pos()))
	o0.Trivial = true
	for _, T := range impls {
		o := r.Ob("CH-EXH", name+"["+typeKey(T)+"]", "every "+ifaceName+" implementer is handled, or rejected with an error")
		w := &feWalker{Fn: fn, Hook: typeSwitchHook(sw, T), MaxPath: 20000}
		ends := w.Run()
		if w.Aborted {
			o.Undecide(r.pos(fn.Pos()), "path enumeration aborted")
			continue
		}
		nPanic, nErr, nOther := 0, 0, 0
		for _, e := range ends {
			if _, ok := e.Term.(*ssa.Panic); ok {
				nPanic++
				continue
			}
			if isErr, known := endReturnsError(e); known && isErr {
				nErr++
				continue
			}
			nOther++
		}
		covered := asserted[shortType(T)]
		if !covered {
			// a case on an interface the type implements covers it
			allInstrs(fn, func(in ssa.Instruction) {
				if ta, ok := in.(*ssa.TypeAssert); ok && ta.CommaOk && ta.X == sw && types.IsInterface(ta.AssertedType) {
					if it, ok := ta.AssertedType.Underlying().(*types.Interface); ok && types.Implements(T, it) {
						covered = true
					}
				}
			})
		}
		switch {
		case nPanic > 0:
			o.Fail(r.pos(fn.Pos()), "a value of type %s reaches a panic (%d path(s))", shortType(T), nPanic)
		case covered:
			o.OK("has its own case")
		case nOther == 0 && nErr > 0:
			o.OK("no case; rejected with an error on every path")
		case silentOK:
			o.OK("no case; falls through (conservative no-op at this site)")
		default:
			o.Fail(r.pos(fn.Pos()), "type %s has no case and %d path(s) return success", shortType(T), nOther)
		}
	}
}

// ruleNilNil (ERR-NILNIL): builder functions returning (X, error) never return (nil, nil).
func ruleNilNil(r *Run, rels []string, allow map[string]string) {
	p := r.P
	n := 0
	for _, fn := range p.SrcFuncs() {
		if fn.Pkg == nil {
			continue
		}
		inScope := false
		for _, rel := range rels {
			if fn.Pkg.Pkg.Path() == modPath+"/"+rel {
				inScope = true
			}
		}
		if !inScope {
			continue
		}
		res := fn.Signature.Results()
		if res.Len() != 2 || !isErrorType(res.At(1).Type()) {
			continue
		}
		t0 := res.At(0).Type()
		_, isPtr := t0.Underlying().(*types.Pointer)
		_, isSig := t0.Underlying().(*types.Signature)
		if !types.IsInterface(t0) && !isPtr && !isSig {
			continue
		}
		name := shortFuncName(fn)
		if reason, ok := allow[fn.Name()]; ok {
			r.Notes = append(r.Notes, "ERR-NILNIL exception "+name+": "+reason)
			continue
		}
		n++
		o := r.Ob("ERR-NILNIL", name, "never returns (nil, nil): a caller that sees no error gets a usable value")
		bad := false
		for _, ret := range returnsOf(fn) {
			for _, a := range phiLeaves(ret.Results[0]) {
				for _, b := range phiLeaves(ret.Results[1]) {
					if isNilConst(a) && isNilConst(b) {
						bad = true
						o.Fail(r.pos(ret.Pos()), "returns (nil, nil)")
					}
				}
			}
		}
		if !bad {
			o.OK("no (nil, nil) return").At(r.pos(fn.Pos()))
			o.Trivial = len(returnsOf(fn)) < 2
		}
	}
	r.count("nilnil_functions", n)
	_ = sort.Strings
	_ = strings.Join
}
