package main

import (
	"fmt"
	"go/constant"
	"go/token"
	"go/types"
	"os"
	"sort"
	"strings"

	"golang.org/x/tools/go/ssa"
)

// ---------------------------------------------------------------------------
// loops

type rangeLoop struct {
	Header *ssa.BasicBlock // rangeindex.loop
	Body   *ssa.BasicBlock // first body block
	Done   *ssa.BasicBlock
	Len    *ssa.Call // len(X)
	X      ssa.Value // ranged value
	Index  ssa.Value // t = phi+1
	Blocks map[*ssa.BasicBlock]bool
}

// rangeIndexLoops finds `for i, x := range slice` loops: a block whose
// terminator is `if idx < len(X)` with idx = phi(-1, idx)+1.
func rangeIndexLoops(fn *ssa.Function) []*rangeLoop {
	var out []*rangeLoop
	for _, b := range fn.Blocks {
		if len(b.Instrs) == 0 {
			continue
		}
		ifi, ok := b.Instrs[len(b.Instrs)-1].(*ssa.If)
		if !ok {
			continue
		}
		cmp, ok := ifi.Cond.(*ssa.BinOp)
		if !ok || cmp.Op != token.LSS {
			continue
		}
		inc, ok := cmp.X.(*ssa.BinOp)
		if !ok || inc.Op != token.ADD || inc.Block() != b {
			continue
		}
		phi, ok := inc.X.(*ssa.Phi)
		if !ok || phi.Block() != b {
			continue
		}
		if one, ok := constInt(inc.Y); !ok || one != 1 {
			continue
		}
		hasInit := false
		for _, e := range phi.Edges {
			if c, ok := constInt(e); ok && c == -1 {
				hasInit = true
			}
		}
		if !hasInit {
			continue
		}
		lenCall, ok := cmp.Y.(*ssa.Call)
		if !ok {
			continue
		}
		bi, ok := lenCall.Call.Value.(*ssa.Builtin)
		if !ok || bi.Name() != "len" {
			continue
		}
		l := &rangeLoop{Header: b, Body: b.Succs[0], Done: b.Succs[1], Len: lenCall, X: lenCall.Call.Args[0], Index: inc}
		l.Blocks = naturalLoop(b)
		out = append(out, l)
	}
	// classic counting loops: for i := 0; i < len(X); i++ { ... X[i] ... }
	for _, b := range fn.Blocks {
		if len(b.Instrs) == 0 {
			continue
		}
		ifi, ok := b.Instrs[len(b.Instrs)-1].(*ssa.If)
		if !ok {
			continue
		}
		cmp, ok := ifi.Cond.(*ssa.BinOp)
		if !ok || cmp.Op != token.LSS {
			continue
		}
		phi, ok := cmp.X.(*ssa.Phi)
		if !ok || phi.Block() != b {
			continue
		}
		lenCall, ok := cmp.Y.(*ssa.Call)
		if !ok {
			continue
		}
		bi, ok := lenCall.Call.Value.(*ssa.Builtin)
		if !ok || bi.Name() != "len" {
			continue
		}
		blocks := naturalLoop(b)
		initOK, incOK := false, true
		for i, e := range phi.Edges {
			pred := b.Preds[i]
			if !blocks[pred] {
				if c, ok := constInt(e); ok && c == 0 {
					initOK = true
				} else {
					incOK = false
				}
				continue
			}
			inc, ok := e.(*ssa.BinOp)
			if !ok || inc.Op != token.ADD || inc.X != ssa.Value(phi) {
				incOK = false
				continue
			}
			if one, ok := constInt(inc.Y); !ok || one != 1 {
				incOK = false
			}
		}
		if !initOK || !incOK {
			continue
		}
		out = append(out, &rangeLoop{Header: b, Body: b.Succs[0], Done: b.Succs[1], Len: lenCall, X: lenCall.Call.Args[0], Index: phi, Blocks: blocks})
	}
	return out
}

// naturalLoop: blocks dominated by header from which header is reachable.
func naturalLoop(h *ssa.BasicBlock) map[*ssa.BasicBlock]bool {
	in := map[*ssa.BasicBlock]bool{h: true}
	var stack []*ssa.BasicBlock
	for _, p := range h.Preds {
		if h.Dominates(p) && !in[p] {
			in[p] = true
			stack = append(stack, p)
		}
	}
	for len(stack) > 0 {
		b := stack[len(stack)-1]
		stack = stack[:len(stack)-1]
		for _, p := range b.Preds {
			if !in[p] && h.Dominates(p) {
				in[p] = true
				stack = append(stack, p)
			}
		}
	}
	return in
}

// loopExits lists edges leaving the loop other than the header's own exit.
func (l *rangeLoop) earlyExits() [][2]*ssa.BasicBlock {
	var out [][2]*ssa.BasicBlock
	for b := range l.Blocks {
		for _, s := range b.Succs {
			if !l.Blocks[s] && !(b == l.Header && s == l.Done) {
				out = append(out, [2]*ssa.BasicBlock{b, s})
			}
		}
	}
	sort.Slice(out, func(i, j int) bool { return out[i][0].Index < out[j][0].Index })
	return out
}

// isWholeValue: v is a parameter, a field load or a plain local – not a re-slice.
func isWholeValue(v ssa.Value) (string, bool) {
	switch x := v.(type) {
	case *ssa.Parameter:
		return "param " + x.Name(), true
	case *ssa.UnOp:
		if x.Op == token.MUL {
			if n, _, ok := fieldNameOf(x.X); ok {
				return "field " + n, true
			}
			if _, ok := x.X.(*ssa.Alloc); ok {
				return "local", true
			}
			if _, ok := x.X.(*ssa.FreeVar); ok {
				return "captured variable", true
			}
		}
	case *ssa.Call:
		return "call result", true
	case *ssa.Extract:
		return "call result", true
	case *ssa.Phi:
		return "phi", true
	case *ssa.Slice:
		return "re-slice", false
	}
	return fmt.Sprintf("%T", v), false
}

// ---------------------------------------------------------------------------
// CH-OP: comparator and matcher bodies

func ruleMatcherBodies(r *Run) {
	p := r.P
	type cmpSpec struct {
		typ string
		op  token.Token
	}
	for _, cs := range []cmpSpec{{"EqComparator", token.EQL}, {"NotEqComparator", token.NEQ}, {"LtComparator", token.LSS},
		{"LteComparator", token.LEQ}, {"GtComparator", token.GTR}, {"GteComparator", token.GEQ}} {
		fn := p.Method(enginePkg, cs.typ, "Compare")
		o := r.Ob("CH-OP", "logqlengine."+cs.typ+".Compare", "Compare(a, b) is `a "+cs.op.String()+" b`")
		if fn == nil || len(fn.Params) != 3 {
			o.Fail("-", "method not found")
			continue
		}
		rets := returnsOf(fn)
		if len(rets) != 1 {
			o.Undecide(r.pos(fn.Pos()), "expected a single return, found %d", len(rets))
			continue
		}
		b, ok := rets[0].Results[0].(*ssa.BinOp)
		if !ok {
			o.Fail(r.pos(rets[0].Pos()), "returns %s, not a comparison of its parameters", describe(rets[0].Results[0], 0))
			continue
		}
		a, bb := fn.Params[1], fn.Params[2]
		okDirect := b.Op == cs.op && b.X == ssa.Value(a) && b.Y == ssa.Value(bb)
		okFlipped := b.Op == flipCmp(cs.op) && b.X == ssa.Value(bb) && b.Y == ssa.Value(a)
		if okDirect || okFlipped {
			o.OK("returns %s", describe(b, 0)).At(r.pos(fn.Pos()))
		} else {
			o.Fail(r.pos(rets[0].Pos()), "returns %s %s %s", describe(b.X, 0), b.Op, describe(b.Y, 0))
		}
	}
	// typed label filters call Compare(labelValue, filterValue)
	for _, tn := range []string{"DurationLabelFilter", "BytesLabelFilter", "NumberLabelFilter"} {
		fn := p.Method(enginePkg, tn, "Process")
		o := r.Ob("CH-ARGORDER", "logqlengine."+tn+".Process", "the comparator is called as Compare(value of the label, literal of the filter)")
		if fn == nil {
			o.Fail("-", "method not found")
			continue
		}
		n := 0
		// the comparison may sit in Process or in a method of the filter that Process hands on as
		// a bound method value (lf.compare)
		type site struct {
			c    ssa.CallInstruction
			host *ssa.Function
		}
		var sites []site
		hosts := []*ssa.Function{fn}
		// ... or in a function literal of Process that is handed to a shared helper
		hosts = append(hosts, fn.AnonFuncs...)
		allInstrs(fn, func(in ssa.Instruction) {
			mc, ok := in.(*ssa.MakeClosure)
			if !ok {
				return
			}
			w, _ := mc.Fn.(*ssa.Function)
			if w == nil {
				return
			}
			var wrapped []*ssa.Function
			if w.Blocks != nil {
				// through the wrapper and any instantiation thunk to the method itself
				cur := []*ssa.Function{w}
				for d := 0; d < 3; d++ {
					var next []*ssa.Function
					for _, f := range cur {
						for _, wc := range callsIn(f) {
							if m := staticCallee(wc); m != nil && m.Blocks != nil {
								if m.Synthetic != "" {
									next = append(next, m)
								} else {
									wrapped = append(wrapped, m)
								}
							}
						}
					}
					cur = next
				}
			} else if strings.HasSuffix(w.Name(), "$bound") {
				// the wrapper of a generic method has no body of its own: go by the method it binds
				mn := strings.TrimSuffix(w.Name(), "$bound")
				if i := strings.LastIndex(mn, "."); i >= 0 {
					mn = mn[i+1:]
				}
				if m := p.Method(enginePkg, tn, mn); m != nil {
					wrapped = append(wrapped, m)
				}
			}
			for _, m := range wrapped {
				if m != nil && m.Blocks != nil && m.Signature.Recv() != nil && fn.Signature.Recv() != nil {
					mo, fo := m, fn
					if mo.Origin() != nil {
						mo = mo.Origin()
					}
					if fo.Origin() != nil {
						fo = fo.Origin()
					}
					if typeKey(mo.Signature.Recv().Type()) == typeKey(fo.Signature.Recv().Type()) {
						hosts = append(hosts, m)
					}
				}
			}
		})
		for _, h := range hosts {
			for _, c := range callsIn(h) {
				if invokeIs(c, "Compare") {
					sites = append(sites, site{c, h})
				}
			}
		}
		for _, st := range sites {
			c, fn := st.c, st.host
			n++
			args := c.Common().Args
			if len(args) != 2 {
				o.Undecide(r.pos(c.Pos()), "Compare with %d args", len(args))
				continue
			}
			f1, base1, ok1 := loadOfField(args[1])
			_, _, ok0 := loadOfField(args[0])
			recvOK := ok1 && f1 == "value" && isRecvValue(fn, base1)
			if recvOK && !(ok0 && isRecvField(args[0], fn)) {
				o.OK("Compare(%s, %s)", describe(args[0], 0), describe(args[1], 0)).At(r.pos(c.Pos()))
			} else {
				o.Fail(r.pos(c.Pos()), "Compare(%s, %s): the second argument must be the filter's literal (receiver field value) and the first the label value", describe(args[0], 0), describe(args[1], 0))
			}
		}
		if n == 0 {
			o.Fail(r.pos(fn.Pos()), "no Compare call found")
		}
	}
	// string/ip matchers
	type mSpec struct {
		typ   string
		claim string
		check func(fn *ssa.Function, ret ssa.Value) bool
	}
	recvField := func(fn *ssa.Function, v ssa.Value, name string) bool {
		f, base, ok := loadOfField(v)
		return ok && f == name && isRecvValue(fn, base)
	}
	specs := []mSpec{
		{"EqualsMatcher", "Match(s) is `s == m.Value`", func(fn *ssa.Function, ret ssa.Value) bool {
			b, ok := ret.(*ssa.BinOp)
			if !ok || b.Op != token.EQL {
				return false
			}
			s := ssa.Value(fn.Params[1])
			return (b.X == s && recvField(fn, b.Y, "Value")) || (b.Y == s && recvField(fn, b.X, "Value"))
		}},
		{"ContainsMatcher", "Match(s) is strings.Contains(s, m.Value)", func(fn *ssa.Function, ret ssa.Value) bool {
			c, ok := ret.(*ssa.Call)
			if !ok || !callIs(c, "strings", "Contains") {
				return false
			}
			return c.Call.Args[0] == ssa.Value(fn.Params[1]) && recvField(fn, c.Call.Args[1], "Value")
		}},
		{"RegexpMatcher", "Match(s) is m.Re.MatchString(s)", func(fn *ssa.Function, ret ssa.Value) bool {
			c, ok := ret.(*ssa.Call)
			if !ok || !callIs(c, "regexp", "(*Regexp).MatchString") {
				return false
			}
			return recvField(fn, c.Call.Args[0], "Re") && c.Call.Args[1] == ssa.Value(fn.Params[1])
		}},
		{"NotMatcher", "Match(v) is `!m.Next.Match(v)`", func(fn *ssa.Function, ret ssa.Value) bool {
			u, ok := ret.(*ssa.UnOp)
			if !ok || u.Op != token.NOT {
				return false
			}
			c, ok := u.X.(*ssa.Call)
			if !ok || !invokeIs(c, "Match") {
				return false
			}
			return recvField(fn, c.Call.Value, "Next") && len(c.Call.Args) == 1 && c.Call.Args[0] == ssa.Value(fn.Params[1])
		}},
		{"EqualIPMatcher", "Match(ip) is `m.Value.Compare(ip) == 0` (or ==)", func(fn *ssa.Function, ret ssa.Value) bool {
			b, ok := ret.(*ssa.BinOp)
			if !ok || b.Op != token.EQL {
				return false
			}
			if c, ok := b.X.(*ssa.Call); ok && callIs(c, "net/netip", "(Addr).Compare") {
				z, isz := constInt(b.Y)
				args := c.Call.Args
				ipOK := (recvField(fn, args[0], "Value") && args[1] == ssa.Value(fn.Params[1])) || (args[0] == ssa.Value(fn.Params[1]) && recvField(fn, args[1], "Value"))
				return isz && z == 0 && ipOK
			}
			return (recvField(fn, b.X, "Value") && b.Y == ssa.Value(fn.Params[1])) || (recvField(fn, b.Y, "Value") && b.X == ssa.Value(fn.Params[1]))
		}},
		{"RangeIPMatcher", "Match(ip) is m.Range.Contains(ip)", func(fn *ssa.Function, ret ssa.Value) bool {
			c, ok := ret.(*ssa.Call)
			if !ok || !callIs(c, "go4.org/netipx", "(IPRange).Contains") {
				return false
			}
			return recvField(fn, c.Call.Args[0], "Range") && c.Call.Args[1] == ssa.Value(fn.Params[1])
		}},
		{"PrefixIPMatcher", "Match(ip) is m.Prefix.Contains(ip)", func(fn *ssa.Function, ret ssa.Value) bool {
			c, ok := ret.(*ssa.Call)
			if !ok || !callIs(c, "net/netip", "(Prefix).Contains") {
				return false
			}
			return recvField(fn, c.Call.Args[0], "Prefix") && c.Call.Args[1] == ssa.Value(fn.Params[1])
		}},
	}
	for _, ms := range specs {
		fn := p.Method(enginePkg, ms.typ, "Match")
		o := r.Ob("CH-OP", "logqlengine."+ms.typ+".Match", ms.claim)
		if fn == nil || len(fn.Params) != 2 {
			o.Fail("-", "method not found")
			continue
		}
		rets := returnsOf(fn)
		if len(rets) != 1 {
			o.Undecide(r.pos(fn.Pos()), "expected a single return, found %d", len(rets))
			continue
		}
		if ms.check(fn, rets[0].Results[0]) {
			o.OK("returns %s", describe(rets[0].Results[0], 0)).At(r.pos(fn.Pos()))
		} else {
			o.Fail(r.pos(rets[0].Pos()), "returns %s", describe(rets[0].Results[0], 0))
		}
	}
	// LineFilter / LabelMatcher: keep is matcher.Match(line / label value)
	for _, spec := range []struct{ typ, what string }{{"LineFilter", "line"}, {"LabelMatcher", "label"}} {
		fn := p.Method(enginePkg, spec.typ, "Process")
		o := r.Ob("CH-OP", "logqlengine."+spec.typ+".Process", "keep is exactly matcher.Match("+spec.what+")")
		if fn == nil {
			o.Fail("-", "method not found")
			continue
		}
		rets := returnsOf(fn)
		good := len(rets) > 0
		for _, ret := range rets {
			c, ok := ret.Results[1].(*ssa.Call)
			if !ok || !invokeIs(c, "Match") || !recvField(fn, c.Call.Value, "matcher") || len(c.Call.Args) != 1 {
				good = false
				o.Fail(r.pos(ret.Pos()), "keep is %s", describe(ret.Results[1], 0))
				continue
			}
			arg := c.Call.Args[0]
			if spec.what == "line" {
				if arg != ssa.Value(fn.Params[2]) {
					good = false
					o.Fail(r.pos(ret.Pos()), "matcher is applied to %s, not to the line", describe(arg, 0))
				}
			} else {
				// label value: Extract #0 of set.GetString(lf.name)
				gc, idx, ok := extractOf(arg)
				if !ok || idx != 0 || !callIs(gc, modPath+"/"+enginePkg, "(*LabelSet).GetString") || !recvField(fn, gc.Call.Args[1], "name") {
					good = false
					o.Fail(r.pos(ret.Pos()), "matcher is applied to %s, not to set.GetString(name)", describe(arg, 0))
				}
			}
		}
		if good {
			o.OK("keep = matcher.Match(%s) on every return", spec.what).At(r.pos(fn.Pos()))
		}
	}
}

func flipCmp(op token.Token) token.Token {
	switch op {
	case token.LSS:
		return token.GTR
	case token.GTR:
		return token.LSS
	case token.LEQ:
		return token.GEQ
	case token.GEQ:
		return token.LEQ
	}
	return op
}

func isRecvField(v ssa.Value, fn *ssa.Function) bool {
	_, base, ok := loadOfField(v)
	return ok && isRecvValue(fn, base)
}

// isRecvValue: base is the receiver parameter, or the local cell a value
// receiver was spilled into (an Alloc whose only store is the parameter).
func isRecvValue(fn *ssa.Function, base ssa.Value) bool {
	// inside a function literal of a method: the captured receiver of the enclosing method
	if fn.Parent() != nil {
		b := base
		if lu, ok := b.(*ssa.UnOp); ok && lu.Op == token.MUL {
			b = lu.X
		}
		if fv, ok := b.(*ssa.FreeVar); ok {
			if bound := freeVarBinding(fv); bound != nil {
				if lu, ok := bound.(*ssa.UnOp); ok && lu.Op == token.MUL {
					bound = lu.X
				}
				return isRecvValue(fn.Parent(), bound) || isRecvValue(fn.Parent(), spillParam(bound))
			}
		}
		return false
	}
	if len(fn.Params) == 0 {
		return false
	}
	if base == ssa.Value(fn.Params[0]) {
		return true
	}
	al, ok := base.(*ssa.Alloc)
	if !ok {
		return false
	}
	st := storesTo(al)
	return len(st) == 1 && st[0].Val == ssa.Value(fn.Params[0])
}

// ---------------------------------------------------------------------------
// FE-BOOL: And / Or composite predicates

func ruleAndOr(r *Run) {
	p := r.P
	_, want := processorMethods(p)
	for _, spec := range []struct {
		typ  string
		f    func(a, b bool) bool
		desc string
	}{
		{"AndLabelMatcher", func(a, b bool) bool { return a && b }, "keeps iff both operands keep"},
		{"OrLabelMatcher", func(a, b bool) bool { return a || b }, "keeps iff either operand keeps"},
	} {
		fn := p.Method(enginePkg, spec.typ, "Process")
		o := r.Ob("FE-BOOL", "logqlengine."+spec.typ+".Process", spec.typ+" "+spec.desc)
		if fn == nil || want == nil {
			o.Fail("-", "method not found")
			continue
		}
		var left, right *ssa.Call
		for _, c := range callsIn(fn) {
			call, ok := c.(*ssa.Call)
			if !ok || !isProcessCall(call, want) {
				continue
			}
			f, base, ok := loadOfField(call.Call.Value)
			if !ok || base != ssa.Value(fn.Params[0]) {
				continue
			}
			switch f {
			case "Left":
				left = call
			case "Right":
				right = call
			}
		}
		if left == nil || right == nil {
			o.Undecide(r.pos(fn.Pos()), "Left/Right Process calls not found")
			continue
		}
		kl, kr := innerKeep(left), innerKeep(right)
		good := true
		for _, a := range []bool{false, true} {
			for _, b := range []bool{false, true} {
				assume := map[ssa.Value]constant.Value{}
				if kl != nil {
					assume[kl] = constant.MakeBool(a)
				}
				if kr != nil {
					assume[kr] = constant.MakeBool(b)
				}
				// the right call's tuple may be returned directly (tail call)
				w := &feWalker{Fn: fn, Assume: assume}
				for _, e := range w.Run() {
					ret, ok := e.Term.(*ssa.Return)
					if !ok {
						good = false
						o.Undecide(r.pos(fn.Pos()), "path does not end in return")
						continue
					}
					var got constant.Value
					if len(ret.Results) == 2 {
						if e.Results[1].Known {
							got = e.Results[1].C
						} else if c, idx, ok := extractOf(e.Results[1].V); ok && idx == 1 {
							if c == right {
								got = constant.MakeBool(b)
							} else if c == left {
								got = constant.MakeBool(a)
							}
						}
					}
					if got == nil {
						good = false
						o.Undecide(r.pos(ret.Pos()), "keep result %s not decidable under left=%v right=%v", describe(ret.Results[1], 0), a, b)
						continue
					}
					if constant.BoolVal(got) != spec.f(a, b) {
						good = false
						o.Fail(r.pos(ret.Pos()), "with left=%v right=%v the result keeps=%v, expected %v", a, b, constant.BoolVal(got), spec.f(a, b))
					}
				}
			}
		}
		if good {
			o.OK("truth table over (left keep, right keep) matches").At(r.pos(fn.Pos()))
		}
		// both operands see the same input line
		o2 := r.Ob("LP-DROP", "logqlengine."+spec.typ+".Process operands", "the right operand is evaluated on a line that the left operand kept or on the input line")
		lineArg := callArgs(right)[1]
		leftLine := innerLine(left)
		switch {
		case lineArg == ssa.Value(fn.Params[2]):
			o2.OK("right operand receives the input line").At(r.pos(right.Pos()))
		case lineArg == leftLine:
			if b, known := knownBoolAt(right.Block(), kl); known && b {
				o2.OK("right operand receives the left operand's line under left keep==true").At(r.pos(right.Pos()))
			} else {
				o2.Fail(r.pos(right.Pos()), "right operand receives the left operand's line although the left operand rejected the record")
			}
		default:
			o2.Undecide(r.pos(right.Pos()), "right operand receives %s", describe(lineArg, 0))
		}
	}
}

// ---------------------------------------------------------------------------
// LP-OFFLOAD

func typeSwitchHook(val ssa.Value, dyn types.Type) feHook {
	return func(w *feWalker, st *feState, v ssa.Value) (constant.Value, bool) {
		e, ok := v.(*ssa.Extract)
		if !ok || e.Index != 1 {
			return nil, false
		}
		ta, ok := e.Tuple.(*ssa.TypeAssert)
		if !ok || !ta.CommaOk {
			return nil, false
		}
		if ta.X != val {
			return nil, false
		}
		if types.IsInterface(ta.AssertedType) {
			return constant.MakeBool(types.Implements(dyn, ta.AssertedType.Underlying().(*types.Interface))), true
		}
		return constant.MakeBool(types.Identical(ta.AssertedType, dyn)), true
	}
}

// implementersOf lists the first-party pointer types whose method set
// includes the unexported marker method of the given interface.
func implementersOf(p *Program, rel, ifaceName string) []types.Type {
	iface := p.NamedType(rel, ifaceName)
	if iface == nil {
		return nil
	}
	it, ok := iface.Underlying().(*types.Interface)
	if !ok {
		return nil
	}
	var out []types.Type
	for _, pkg := range p.First {
		scope := pkg.Types.Scope()
		for _, name := range scope.Names() {
			tn, ok := scope.Lookup(name).(*types.TypeName)
			if !ok || tn.IsAlias() {
				continue
			}
			if _, isIface := tn.Type().Underlying().(*types.Interface); isIface {
				continue
			}
			if named, ok := tn.Type().(*types.Named); ok && named.TypeParams().Len() > 0 {
				continue
			}
			pt := types.NewPointer(tn.Type())
			if types.Implements(pt, it) {
				out = append(out, pt)
			} else if types.Implements(tn.Type(), it) {
				out = append(out, tn.Type())
			}
		}
	}
	sort.Slice(out, func(i, j int) bool { return shortType(out[i]) < shortType(out[j]) })
	return out
}

func ruleLPOffload(r *Run) {
	p := r.P
	fn := p.Func(enginePkg, "extractQueryConditions")
	anchor := r.Ob("ANCHOR", "logqlengine.extractQueryConditions", "anchor function resolves")
	anchor.Trivial = true
	if fn == nil || len(fn.Params) != 3 {
		anchor.Fail("-", "function not found")
		return
	}
	anchor.OK("resolved").At(r.pos(fn.Pos()))
	stagesParam := fn.Params[2]
	// the scan loop: in extractQueryConditions or in a helper that is given the stage list
	var loop *rangeLoop
	lf := fn
	grp := funcGroup(fn)
	for _, gf := range grp {
		for _, l := range rangeIndexLoops(gf) {
			if l.X == ssa.Value(stagesParam) || (gf != fn && originValueIn(l.X, grp) == ssa.Value(stagesParam)) {
				loop, lf = l, gf
			}
		}
	}
	ow := r.Ob("PV-WHOLE", "logqlengine.extractQueryConditions stage loop", "the offload scan ranges over the whole stage list")
	if loop == nil {
		ow.Fail(r.pos(fn.Pos()), "no range loop over the stages parameter found")
		return
	}
	ow.OK("ranges over parameter %s", stagesParam.Name()).At(r.pos(loop.Len.Pos()))
	// the ranged element
	var elem ssa.Value
	for _, in := range loop.Body.Instrs {
		if u, ok := in.(*ssa.UnOp); ok && u.Op == token.MUL {
			if ia, ok := u.X.(*ssa.IndexAddr); ok && ia.X == loop.X {
				elem = u
			}
		}
	}
	if elem == nil {
		r.Ob("LP-OFFLOAD", "logqlengine.extractQueryConditions", "stage element is read in the loop body").Undecide(r.pos(fn.Pos()), "element load not found")
		return
	}
	// an offload is an append to a []logql.LineFilter inside the loop
	isOffload := func(c ssa.CallInstruction) bool {
		call, ok := c.(*ssa.Call)
		if !ok || !isAppend(call) || !loop.Blocks[call.Block()] {
			return false
		}
		sl, ok := call.Type().Underlying().(*types.Slice)
		return ok && typeKey(sl.Elem()) == "LineFilter"
	}
	impls := implementersOf(p, logqlPkg, "PipelineStage")
	oi := r.Ob("LP-OFFLOAD", "PipelineStage implementers", "every pipeline stage type is classified")
	if len(impls) < 13 {
		oi.Fail("-", "only %d PipelineStage implementers found, floor 13", len(impls))
		return
	}
	oi.OK("%d implementers", len(impls))
	oi.Trivial = true
	for _, T := range impls {
		name := typeKey(T)
		class, known := stageClasses[name]
		o := r.Ob("LP-OFFLOAD", "extractQueryConditions["+name+"]", "line filters after a stage are offloaded to the storage only if the stage cannot change the line")
		if !known {
			o.Undecide("-", "stage type %s has no class in the table", name)
			continue
		}
		w := &feWalker{Fn: lf, Hook: typeSwitchHook(elem, T)}
		ends := w.RunFrom(loop.Body, loop.Header)
		breaks, continues, offloads, unguarded := 0, 0, 0, 0
		for _, e := range ends {
			// classify by the first block after the body that is the header (continue) or outside the loop (break)
			kind := ""
			for _, b := range e.State.trail[1:] {
				if b == loop.Header {
					kind = "continue"
					break
				}
				if !loop.Blocks[b] {
					kind = "break"
					break
				}
			}
			switch kind {
			case "break":
				breaks++
			case "continue":
				continues++
			}
			if kind == "" {
				if _, isRet := e.Term.(*ssa.Return); isRet && lf != fn {
					kind = "break" // the helper returns from inside the loop: the scan stops
					breaks++
				}
			}
			off := false
			for _, c := range e.State.calls {
				if isOffload(c.Call) {
					off = true
				}
			}
			if off {
				offloads++
				// guards taken on the path: not an ip() filter, operator supported by the storage
				notIP, supported := false, false
				for _, f := range e.State.free {
					f = normFact(f)
					if n, _, ok := loadOfField(f.Cond); ok && n == "IP" && !f.Truth {
						notIP = true
					}
					if c, ok := f.Cond.(*ssa.Call); ok && f.Truth {
						if callee := staticCallee(c); callee != nil && cname(callee) == "Supports" && len(c.Call.Args) == 2 {
							if n, _, ok := loadOfField(c.Call.Args[1]); ok && n == "Op" {
								supported = true
							}
						}
					}
				}
				if !notIP || !supported {
					unguarded++
				}
			}
		}
		switch class {
		case classKeepAllRewrite:
			if continues == 0 && breaks > 0 {
				o.OK("stage may rewrite the line: the scan stops here (%d path(s))", breaks).At(r.pos(fn.Pos()))
			} else {
				o.Fail(r.pos(fn.Pos()), "stage %s may rewrite the line but the offload scan continues past it (%d continuing path(s)): later line filters would be evaluated by the storage on the unrewritten line", name, continues)
			}
		default:
			if breaks == 0 {
				o.OK("scan continues past the stage (%d path(s), %d offload store(s))", continues, offloads).At(r.pos(fn.Pos()))
			} else {
				// stopping early is conservative, not wrong
				o.OK("scan stops at the stage (conservative)")
			}
		}
		if name == "LineFilter" {
			o2 := r.Ob("LP-OFFLOAD", "extractQueryConditions[LineFilter] offload", "a line filter is offloaded only when the storage supports its operator and it is not an ip() filter")
			if unguarded > 0 {
				o2.Fail(r.pos(lf.Pos()), "%d of %d offloading path(s) do not pass both guards (stage.IP is false, caps.Line.Supports(stage.Op) is true)", unguarded, offloads)
			} else if offloads > 0 {
				o2.OK("%d offloading path(s), each under !stage.IP and Supports(stage.Op)", offloads)
			} else {
				o2.OK("line filters are never offloaded (conservative)")
			}
		} else if offloads > 0 {
			o.Fail(r.pos(fn.Pos()), "a %s stage is appended to the offloaded line filters", name)
		}
	}
	// the engine re-checks everything: selectLogs builds the pipeline from the full stage list
	sl := p.Method(enginePkg, "Engine", "selectLogs")
	o := r.Ob("PV-WHOLE", "logqlengine.(*Engine).selectLogs BuildPipeline", "the engine's own pipeline is built from the full stage list (offloaded filters are re-checked)")
	if sl == nil {
		o.Fail("-", "method not found")
		return
	}
	found := false
	for _, c := range callsIn(sl) {
		if callIs(c, modPath+"/"+enginePkg, "BuildPipeline") {
			found = true
			arg := c.Common().Args[0]
			if prm, ok := originValueIn(arg, funcGroup(sl)).(*ssa.Parameter); ok && prm.Parent() == sl {
				o.OK("BuildPipeline(stages...)").At(r.pos(c.Pos()))
			} else {
				o.Fail(r.pos(c.Pos()), "BuildPipeline is given %s, not the whole stages parameter", describe(arg, 0))
			}
		}
	}
	if !found {
		o.Fail(r.pos(sl.Pos()), "no BuildPipeline call")
	}
}

// ---------------------------------------------------------------------------
// LP-PIPE

func ruleLPPipe(r *Run) {
	p := r.P
	_, want := processorMethods(p)
	// Pipeline.Process
	fn := p.Method(enginePkg, "Pipeline", "Process")
	o := r.Ob("LP-PIPE", "logqlengine.(*Pipeline).Process", "every stage runs in order on the previous stage's line; the loop is left early only when a stage drops the record")
	if fn == nil || want == nil {
		o.Fail("-", "method not found")
	} else {
		loops := rangeIndexLoops(fn)
		var loop *rangeLoop
		for _, l := range loops {
			if f, base, ok := loadOfField(l.X); ok && f == "Stages" && base == ssa.Value(fn.Params[0]) {
				loop = l
			}
		}
		switch {
		case loop == nil:
			what := "no range loop"
			for _, l := range loops {
				if d, ok := isWholeValue(l.X); !ok {
					what = "loop ranges over a " + d
				}
			}
			o.Fail(r.pos(fn.Pos()), "no range loop over the whole p.Stages found (%s)", what)
		default:
			good := true
			// exactly one Process call in the loop, on the ranged element, fed with the running line
			var call *ssa.Call
			for b := range loop.Blocks {
				for _, in := range b.Instrs {
					if c, ok := in.(*ssa.Call); ok && isProcessCall(c, want) {
						if call != nil {
							good = false
							o.Fail(r.pos(c.Pos()), "more than one Process call in the loop")
						}
						call = c
					}
				}
			}
			if call == nil {
				good = false
				o.Fail(r.pos(fn.Pos()), "no Process call in the loop")
			} else {
				// receiver is stages[idx]
				rv, _ := call.Call.Value.(*ssa.UnOp)
				ia, _ := func() (*ssa.IndexAddr, bool) {
					if rv == nil {
						return nil, false
					}
					x, ok := rv.X.(*ssa.IndexAddr)
					return x, ok
				}()
				if ia == nil || ia.X != loop.X || ia.Index != loop.Index {
					good = false
					o.Fail(r.pos(call.Pos()), "Process is not called on the ranged element")
				}
				// line argument: phi(line param, previous call's line)
				la := callArgs(call)[1]
				leaves := phiLeaves(la)
				okLeaves := true
				for _, lv := range leaves {
					if lv != ssa.Value(fn.Params[2]) && lv != innerLine(call) {
						okLeaves = false
					}
				}
				hasPrev := false
				for _, lv := range leaves {
					if il := innerLine(call); il != nil && lv == il {
						hasPrev = true
					}
				}
				if !okLeaves || len(leaves) == 0 {
					good = false
					o.Fail(r.pos(call.Pos()), "the stage is fed %s, not the previous stage's line", describe(la, 0))
				} else if !hasPrev {
					good = false
					o.Fail(r.pos(call.Pos()), "every stage is fed %s: the line a stage returns never reaches the next stage", describe(la, 0))
				}
				// after the last stage: the line it returned (the incoming line when there is no stage), kept
				for _, ret := range returnsOf(fn) {
					if len(ret.Results) != 2 || !(loop.Done == ret.Block() || loop.Done.Dominates(ret.Block())) {
						continue
					}
					rl := phiLeaves(unspill(ret.Results[0]))
					okRet, prevRet := len(rl) > 0, false
					for _, lv := range rl {
						if il := innerLine(call); il != nil && lv == il {
							prevRet = true
						} else if lv != ssa.Value(fn.Params[2]) {
							okRet = false
						}
					}
					if !okRet || !prevRet {
						good = false
						o.Fail(r.pos(ret.Pos()), "after the last stage the pipeline returns %s, not the last stage's line", describe(ret.Results[0], 0))
					}
				}
				// early exits only under keep==false
				for _, ex := range loop.earlyExits() {
					k := innerKeep(call)
					if !(k != nil && factHoldsOnEdge(ex[0], ex[1], k, false)) {
						good = false
						o.Fail(r.pos(termPos(ex[0])), "the loop is left early on a path where the stage kept the record")
						continue
					}
					// and that path reports the drop: it runs straight to a return whose keep is false
					prev, cur := ex[0], ex[1]
					for n := 0; n < 8; n++ {
						if _, isJ := cur.Instrs[len(cur.Instrs)-1].(*ssa.Jump); !isJ {
							break
						}
						prev, cur = cur, cur.Succs[0]
					}
					ret, isRet := cur.Instrs[len(cur.Instrs)-1].(*ssa.Return)
					if !isRet || len(ret.Results) != 2 {
						good = false
						o.Fail(r.pos(termPos(ex[0])), "after a stage dropped the record the function does not return directly")
						continue
					}
					kv := unspill(ret.Results[1])
					if ph, ok := kv.(*ssa.Phi); ok && ph.Block() == cur {
						for i, pb := range cur.Preds {
							if pb == prev {
								kv = ph.Edges[i]
							}
						}
					}
					if !isConstBool(kv, false) && kv != k {
						good = false
						o.Fail(r.pos(ret.Pos()), "after a stage dropped the record the pipeline reports keep=%s, not false", describe(kv, 0))
					}
				}
			}
			if good {
				o.OK("range over p.Stages, one Process call per stage, early exit only on !keep").At(r.pos(fn.Pos()))
			}
		}
	}
	// BuildPipeline
	bp := p.Func(enginePkg, "BuildPipeline")
	o = r.Ob("LP-PIPE", "logqlengine.BuildPipeline", "one processor per stage, in order")
	if bp == nil {
		o.Fail("-", "function not found")
	} else {
		good := true
		var loop *rangeLoop
		for _, l := range rangeIndexLoops(bp) {
			if l.X == ssa.Value(bp.Params[0]) {
				loop = l
			}
		}
		if loop == nil {
			good = false
			o.Fail(r.pos(bp.Pos()), "no range loop over the whole stages parameter")
		} else {
			nBuild, nAppend := 0, 0
			for b := range loop.Blocks {
				for _, in := range b.Instrs {
					c, ok := in.(*ssa.Call)
					if !ok {
						continue
					}
					if callIs(c, modPath+"/"+enginePkg, "buildStage") {
						nBuild++
						// argument is the ranged element
						if u, ok := c.Call.Args[0].(*ssa.UnOp); !ok || !isIndexOf(u.X, loop) {
							good = false
							o.Fail(r.pos(c.Pos()), "buildStage is not applied to the ranged stage")
						}
					}
					if bi, ok := c.Call.Value.(*ssa.Builtin); ok && bi.Name() == "append" {
						nAppend++
					}
				}
				// indexed fill: procs[i] = p with the loop's index, into a slice as long as the stages
				for _, in := range b.Instrs {
					st, ok := in.(*ssa.Store)
					if !ok {
						continue
					}
					ia, ok := st.Addr.(*ssa.IndexAddr)
					if !ok || ia.Index != loop.Index || ia.X == loop.X {
						continue
					}
					if _, isProc := st.Val.Type().Underlying().(*types.Interface); !isProc {
						continue
					}
					nAppend++
					if c, idx, ok := extractOf(st.Val); !ok || idx != 0 || !callIs(c, modPath+"/"+enginePkg, "buildStage") {
						good = false
						o.Fail(r.pos(st.Pos()), "the processor stored for a stage is %s, not the one built from it", describe(st.Val, 0))
					}
					if ms, ok := ia.X.(*ssa.MakeSlice); ok {
						if lc, ok := ms.Len.(*ssa.Call); !ok || len(lc.Call.Args) != 1 || lc.Call.Args[0] != loop.X {
							good = false
							o.Fail(r.pos(ms.Pos()), "the processors are filled by index into a slice whose length is %s, not len(stages)", describe(ms.Len, 0))
						}
					}
				}
			}
			if nBuild != 1 || nAppend != 1 {
				good = false
				o.Fail(r.pos(bp.Pos()), "loop has %d buildStage call(s) and %d append(s), expected one each", nBuild, nAppend)
			}
			for _, ex := range loop.earlyExits() {
				// allowed only on err != nil
				f, ok := edgeFact(ex[0], ex[1])
				isErrExit := false
				if ok {
					f = normFact(f)
					if x, nn, ok2 := nilCheck(f.Cond); ok2 && isErrorType(x.Type()) && nn == f.Truth {
						isErrExit = true
					}
				}
				if !isErrExit {
					good = false
					o.Fail(r.pos(termPos(ex[0])), "the build loop is left early on a non-error path")
				}
			}
		}
		// single stage: buildStage(stages[0]); zero: NopProcessor
		lenTag := func() ssa.Value {
			for _, c := range callsIn(bp) {
				if bi, ok := c.Common().Value.(*ssa.Builtin); ok && bi.Name() == "len" && c.Common().Args[0] == ssa.Value(bp.Params[0]) {
					if v, ok := c.(*ssa.Call); ok && v.Block() == bp.Blocks[0] {
						return v
					}
				}
			}
			return nil
		}()
		if lenTag != nil {
			for n := int64(0); n <= 1; n++ {
				w := &feWalker{Fn: bp, Assume: map[ssa.Value]constant.Value{lenTag: constant.MakeInt64(n)}}
				for _, e := range w.Run() {
					if isErr, known := endReturnsError(e); known && isErr {
						continue
					}
					if len(e.Results) == 0 {
						continue
					}
					d := describe(e.Results[0].V, 0)
					switch n {
					case 0:
						if !strings.Contains(d, "NopProcessor") {
							good = false
							o.Fail(r.pos(e.Term.Pos()), "with no stages the pipeline is %s, expected the no-op processor", d)
						}
					case 1:
						c, _, ok := extractOf(e.Results[0].V)
						if !ok || !callIs(c, modPath+"/"+enginePkg, "buildStage") {
							good = false
							o.Fail(r.pos(e.Term.Pos()), "with one stage the pipeline is %s, expected buildStage(stages[0])", d)
						} else if u, ok := c.Call.Args[0].(*ssa.UnOp); !ok || !isConstIndexOf(u.X, bp.Params[0], 0) {
							good = false
							o.Fail(r.pos(e.Term.Pos()), "with one stage buildStage is applied to %s, not stages[0]", describe(c.Call.Args[0], 0))
						}
					}
				}
			}
		}
		if good {
			o.OK("0 stages: no-op; 1 stage: buildStage(stages[0]); n stages: one buildStage+append per ranged stage").At(r.pos(bp.Pos()))
		}
	}
	ruleEntryIterator(r, want)
}

func isIndexOf(addr ssa.Value, l *rangeLoop) bool {
	ia, ok := addr.(*ssa.IndexAddr)
	if !ok || ia.Index != l.Index {
		return false
	}
	if ia.X == l.X {
		return true
	}
	// the slice may be re-read from the same field/variable on every use (no CSE in go/ssa)
	_, isLoadA := ia.X.(*ssa.UnOp)
	_, isLoadB := l.X.(*ssa.UnOp)
	return isLoadA && isLoadB && describe(ia.X, 0) == describe(l.X, 0)
}

func isConstIndexOf(addr ssa.Value, x ssa.Value, idx int64) bool {
	ia, ok := addr.(*ssa.IndexAddr)
	if !ok || ia.X != x {
		return false
	}
	c, ok := constInt(ia.Index)
	return ok && c == idx
}

// ruleEntryIterator: record -> SetFromRecord -> prefilter(record.Body) ->
// pipeline(prefilter line) -> emit (ts = record.Timestamp, line = pipeline line).
func ruleEntryIterator(r *Run, want *types.Signature) {
	p := r.P
	fn := p.Method(enginePkg, "entryIterator", "Next")
	o := r.Ob("LP-PIPE", "logqlengine.(*entryIterator).Next", "each record passes SetFromRecord, then the prefilter on the record body, then the pipeline on the prefilter's line; rejected records are skipped, kept ones emitted with the record's timestamp and the pipeline's line")
	if fn == nil || want == nil {
		o.Fail("-", "method not found")
		return
	}
	var pre, pipe *ssa.Call
	var setFrom ssa.CallInstruction
	for _, c := range callsIn(fn) {
		if call, ok := c.(*ssa.Call); ok && isProcessCall(call, want) {
			f, base, ok := loadOfField(call.Call.Value)
			if ok && base == ssa.Value(fn.Params[0]) {
				switch f {
				case "prefilter":
					pre = call
				case "pipeline":
					pipe = call
				}
			}
		}
		if callIs(c, modPath+"/"+enginePkg, "(*LabelSet).SetFromRecord") {
			setFrom = c
		}
	}
	if pre == nil || pipe == nil || setFrom == nil {
		// the per-record work lives (partly) in helpers of Next: decide the same claims on paths
		ruleEntryIteratorPaths(r, o, fn, want)
		return
	}
	good := true
	// the dominance form is the cheap sufficient argument; when it does not go through (verdicts merged
	// in a phi, conditional pipeline call) the claims are decided path by path instead
	fail := func(pos token.Pos, f string, a ...any) { good = false }
	defer func() {
		if !good {
			ruleEntryIteratorPaths(r, o, fn, want)
		}
	}()
	if !instrDominates(setFrom, pre) || !instrDominates(pre, pipe) {
		fail(pipe.Pos(), "order SetFromRecord -> prefilter -> pipeline is not enforced by dominance")
	}
	// prefilter gets record.Body
	if f, _, ok := loadOfField(callArgs(pre)[1]); !ok || f != "Body" {
		fail(pre.Pos(), "prefilter is applied to %s, not record.Body", describe(callArgs(pre)[1], 0))
	}
	// pipeline gets prefilter's line, under prefilter keep
	if callArgs(pipe)[1] != innerLine(pre) {
		fail(pipe.Pos(), "pipeline is applied to %s, not the prefilter's line", describe(callArgs(pipe)[1], 0))
	}
	if b, known := knownBoolAt(pipe.Block(), innerKeep(pre)); !known || !b {
		fail(pipe.Pos(), "pipeline runs although the prefilter rejected the record")
	}
	// both get the same ts and label set
	if describe(callArgs(pre)[0], 0) != describe(callArgs(pipe)[0], 0) || describe(callArgs(pre)[2], 0) != describe(callArgs(pipe)[2], 0) {
		fail(pipe.Pos(), "prefilter and pipeline see different timestamp / label set")
	}
	// every record that was read reaches the prefilter before the next one is read: nothing but the
	// filters' verdicts removes a record
	for _, c := range callsIn(fn) {
		rd, ok := c.(*ssa.Call)
		if !ok || rd == pre || rd == pipe {
			continue
		}
		rv, isNext := methodCallNamed(rd, "Next")
		if !isNext || !isResourceType(rv.Type()) {
			continue
		}
		for _, sc := range rd.Block().Succs {
			if f, ok := edgeFact(rd.Block(), sc); ok {
				f = normFact(f)
				if f.Cond == ssa.Value(rd) && !f.Truth {
					continue // the source is exhausted on this edge
				}
			}
			if blockReaches(sc, rd.Block()) && !mustPassThrough(sc, rd.Block(), pre.Block()) {
				fail(rd.Pos(), "a record that was read can be skipped before the prefilter saw it: records are removed for a reason other than the filters' verdict")
			}
		}
	}
	// returns: true only under both keeps; false only from exhaustion/limit
	for _, ret := range returnsOf(fn) {
		for _, lv := range phiLeaves(ret.Results[0]) {
			switch {
			case isConstBool(lv, true):
				b1, k1 := knownBoolAt(ret.Block(), innerKeep(pre))
				b2, k2 := knownBoolAt(ret.Block(), innerKeep(pipe))
				if !(k1 && b1 && k2 && b2) {
					fail(ret.Pos(), "an entry is emitted without both prefilter and pipeline having kept it")
				}
				// e.ts, e.line stores dominate
				var tsOK, lineOK bool
				for _, b := range fn.Blocks {
					for _, in := range b.Instrs {
						st, ok := in.(*ssa.Store)
						if !ok {
							continue
						}
						n, base, ok := fieldNameOf(st.Addr)
						if !ok || base != ssa.Value(fn.Params[1]) || !instrDominates(st, ret) {
							continue
						}
						switch n {
						case "ts":
							if f, _, ok := loadOfField(st.Val); ok && f == "Timestamp" {
								tsOK = true
							}
						case "line":
							if st.Val == innerLine(pipe) {
								lineOK = true
							}
						}
					}
				}
				if !tsOK {
					fail(ret.Pos(), "emitted entry's ts is not record.Timestamp")
				}
				if !lineOK {
					fail(ret.Pos(), "emitted entry's line is not the pipeline's line")
				}
			case isConstBool(lv, false):
				// must not be under a rejected-record fact
				for _, k := range []ssa.Value{innerKeep(pre), innerKeep(pipe)} {
					if b, known := knownBoolAt(ret.Block(), k); known && !b {
						fail(ret.Pos(), "iteration ends (returns false) on a rejected record instead of skipping it")
					}
				}
				if pre.Block().Dominates(ret.Block()) {
					fail(ret.Pos(), "iteration ends (returns false) after a record was read and filtered")
				}
			default:
				fail(ret.Pos(), "Next returns %s", describe(lv, 0))
			}
		}
	}
	if good {
		o.OK("SetFromRecord -> prefilter(record.Body) -> pipeline(prefilter line); true only under both keeps with ts=record.Timestamp, line=pipeline line").At(r.pos(fn.Pos()))
	}
}

// ruleEntryIteratorPaths decides the entryIterator.Next claims path by path, following the
// helpers of Next (used when the three steps are not all in Next's own body).
func ruleEntryIteratorPaths(r *Run, o *Obligation, fn *ssa.Function, want *types.Signature) {
	grp := funcGroup(fn)
	var pre, pipe *ssa.Call
	var setFrom ssa.CallInstruction
	for _, gf := range grp {
		for _, c := range callsIn(gf) {
			if call, ok := c.(*ssa.Call); ok && isProcessCall(call, want) {
				f, base, ok := loadOfField(call.Call.Value)
				if ok && originValueIn(base, grp) == ssa.Value(fn.Params[0]) {
					switch f {
					case "prefilter":
						pre = call
					case "pipeline":
						pipe = call
					}
				}
			}
			if callIs(c, modPath+"/"+enginePkg, "(*LabelSet).SetFromRecord") {
				setFrom = c
			}
		}
	}
	if pre == nil || pipe == nil || setFrom == nil {
		o.Fail(r.pos(fn.Pos()), "prefilter/pipeline Process call or SetFromRecord call missing (prefilter=%v pipeline=%v SetFromRecord=%v)", pre != nil, pipe != nil, setFrom != nil)
		return
	}
	good := true
	fail := func(pos token.Pos, f string, a ...any) { good = false; o.Fail(r.pos(pos), f, a...) }
	if f, _, ok := loadOfField(callArgs(pre)[1]); !ok || f != "Body" {
		fail(pre.Pos(), "prefilter is applied to %s, not record.Body", describe(callArgs(pre)[1], 0))
	}
	// helpers of Next are followed; SetFromRecord itself is an event, not a helper (its loops over the
	// record's attributes are not part of the per-record protocol)
	base, sfr := inlineHelpers(fn), staticCallee(setFrom)
	w := &feWalker{Fn: fn, MaxPath: 20000, Inline: func(c *ssa.Function, d int) bool { return c != sfr && base(c, d) }}
	ends := w.Run()
	if w.Aborted {
		o.Undecide(r.pos(fn.Pos()), "path enumeration aborted")
		return
	}
	nTrue := 0
	for _, e := range ends {
		seqOf := func(c ssa.CallInstruction) (int, *feCall) {
			for i := range e.State.calls {
				if e.State.calls[i].Call == c {
					return e.State.calls[i].Seq, &e.State.calls[i]
				}
			}
			return -1, nil
		}
		truth := func(v ssa.Value) (bool, bool) {
			for _, f := range e.State.free {
				f = normFact(f)
				if f.Cond == v {
					return f.Truth, true
				}
			}
			return false, false
		}
		sSet, _ := seqOf(setFrom)
		sPre, cPre := seqOf(pre)
		sPipe, cPipe := seqOf(pipe)
		kPre, okPre := truth(innerKeep(pre))
		kPipe, okPipe := truth(innerKeep(pipe))
		at := fn.Pos()
		if e.Term != nil {
			at = e.Term.Pos()
		}
		if sPre >= 0 && (sSet < 0 || sSet > sPre) {
			fail(at, "the prefilter runs before SetFromRecord on a path")
		}
		if sPipe >= 0 {
			if sPre < 0 || sPre > sPipe || !(okPre && kPre) {
				fail(at, "pipeline runs although the prefilter rejected the record (or did not run)")
			}
			if cPipe != nil && cPre != nil {
				pa, qa := cPipe.Args, cPre.Args
				off := len(pa) - 3 // receiver first for static method calls
				if off < 0 || len(qa) != len(pa) {
					fail(at, "unexpected Process call shape")
				} else {
					if pa[off+1].V != innerLine(pre) {
						fail(at, "pipeline is applied to %s, not the prefilter's line", describe(pa[off+1].V, 0))
					}
					if describe(pa[off].V, 0) != describe(qa[off].V, 0) || describe(pa[off+2].V, 0) != describe(qa[off+2].V, 0) {
						fail(at, "prefilter and pipeline see different timestamp / label set")
					}
				}
			}
		}
		// every record that was read is shown to the prefilter before the next one is read: nothing but
		// the filters' verdicts (and the limit, which ends the iteration) removes a record
		lastRead, preSince := -1, true
		for _, ev := range e.State.calls {
			if ev.Call == ssa.CallInstruction(pre) {
				preSince = true
				continue
			}
			cc, isCall := ev.Call.(*ssa.Call)
			if !isCall {
				continue
			}
			if rv, ok := methodCallNamed(cc, "Next"); ok && isResourceType(rv.Type()) && cc.Parent() != nil && cc != pre {
				if lastRead >= 0 && !preSince {
					fail(cc.Pos(), "a record that was read is skipped before the prefilter saw it: records are removed for a reason other than the filters' verdict")
				}
				lastRead, preSince = ev.Seq, false
			}
		}
		ret, isRet := e.Term.(*ssa.Return)
		if os.Getenv("VERIF_DEBUG_LPPIPE") != "" {
			fmt.Fprintf(os.Stderr, "LPPIPE end: term=%T cut=%v results=%d %+v pre=%d pipe=%d\n", e.Term, e.Cut, len(e.Results), e.Results, sPre, sPipe)
		}
		if !isRet || e.Cut || len(e.Results) != 1 {
			continue
		}
		res := e.Results[0]
		switch {
		case res.Known && constant.BoolVal(res.C):
			nTrue++
			if !(okPre && kPre && okPipe && kPipe) {
				fail(ret.Pos(), "an entry is emitted without both prefilter and pipeline having kept it")
			}
			var tsOK, lineOK bool
			for _, st := range e.State.stores {
				n, base, ok := fieldNameOf(st.Store.Addr)
				if !ok || unspill(w.evalVal(e.State, base).V) != ssa.Value(fn.Params[1]) {
					continue
				}
				switch n {
				case "ts":
					f, _, ok := loadOfField(originValue(st.Val.V))
					tsOK = ok && f == "Timestamp"
				case "line":
					lineOK = st.Val.V == innerLine(pipe)
				}
			}
			if !tsOK {
				fail(ret.Pos(), "emitted entry's ts is not record.Timestamp")
			}
			if !lineOK {
				fail(ret.Pos(), "emitted entry's line is not the pipeline's line")
			}
		case res.Known && !constant.BoolVal(res.C):
			if (okPre && !kPre) || (okPipe && !kPipe) {
				fail(ret.Pos(), "iteration ends (returns false) on a rejected record instead of skipping it")
			} else if sPre >= 0 {
				fail(ret.Pos(), "iteration ends (returns false) after a record was read and filtered")
			}
		default:
			fail(ret.Pos(), "Next returns %s", describe(res.V, 0))
		}
	}
	if nTrue == 0 {
		fail(fn.Pos(), "no path emits an entry")
	}
	if good {
		o.OK("on every path through Next and its helpers: SetFromRecord -> prefilter(record.Body) -> pipeline(prefilter line); true only under both keeps with ts=record.Timestamp, line=pipeline line").At(r.pos(fn.Pos()))
	}
}

// ruleMatcherLoop: no selector matcher is lost between the query and the places that evaluate it:
// in extractQueryConditions every iteration over sel.Matchers either hands the matcher to the
// storage (append to the label parameters), turns it into a prefilter (append to the prefilters)
// or fails.
func ruleMatcherLoop(r *Run) {
	p := r.P
	fn := p.Func(enginePkg, "extractQueryConditions")
	o := r.Ob("PV-WHOLE", "logqlengine.extractQueryConditions matcher loop", "every selector matcher is either passed to the storage or evaluated by the engine's prefilter: no iteration over sel.Matchers ends without one of the two (or an error)")
	if fn == nil || len(fn.Params) != 3 {
		o.Fail("-", "function not found")
		return
	}
	grp := funcGroup(fn)
	var loop *rangeLoop
	lf := fn
	for _, gf := range grp {
		for _, l := range rangeIndexLoops(gf) {
			f, base, ok := loadOfField(l.X)
			if ok && f == "Matchers" && originValueIn(spillParam(base), grp) == ssa.Value(fn.Params[1]) {
				loop, lf = l, gf
			}
		}
	}
	if loop == nil {
		o.Fail(r.pos(fn.Pos()), "no range loop over sel.Matchers found")
		return
	}
	w := &feWalker{Fn: lf, Inline: inlineHelpers(lf), MaxPath: 5000}
	bad := false
	n := 0
	for _, e := range w.RunFrom(loop.Body, loop.Header) {
		// only paths that come back to the loop header (or leave the loop normally) matter
		if isErr, known := endReturnsError(e); known && isErr {
			continue
		}
		n++
		kept := false
		for _, c := range e.State.calls {
			call, ok := c.Call.(*ssa.Call)
			if !ok || !isAppend(call) {
				continue
			}
			at := call.Block()
			if c.Top != nil {
				at = c.Top.Block()
			}
			if !loop.Blocks[at] {
				continue
			}
			if sl, ok := call.Type().Underlying().(*types.Slice); ok {
				switch typeKey(sl.Elem()) {
				case "LabelMatcher", "Processor":
					kept = true
				}
			}
		}
		if !kept {
			bad = true
			at := fn.Pos()
			if len(e.State.trail) > 0 && len(e.State.trail[len(e.State.trail)-1].Instrs) > 0 {
				at = e.State.trail[len(e.State.trail)-1].Instrs[0].Pos()
			}
			o.Fail(r.pos(at), "an iteration over sel.Matchers ends without passing the matcher to the storage or building a prefilter for it: that matcher is evaluated by nobody")
			break
		}
	}
	if n == 0 {
		bad = true
		o.Fail(r.pos(fn.Pos()), "no path through the matcher loop")
	}
	if !bad {
		o.OK("%d path(s) through the loop body, each appends the matcher to the storage parameters or a prefilter", n).At(r.pos(lf.Pos()))
	}
}
