package logqlengine

import (
	"context"
	"fmt"
	"sort"
	"testing"
	"time"

	"github.com/stretchr/testify/require"
	"go.opentelemetry.io/collector/pdata/pcommon"

	"github.com/tdakkota/docker-logql/internal/iterators"
	"github.com/tdakkota/docker-logql/internal/logstorage"
	"github.com/tdakkota/docker-logql/internal/otelstorage"
)

type demoD24Querier struct{ records []logstorage.Record }

func (q *demoD24Querier) Capabilities() (caps QuerierCapabilities) { return caps }

func (q *demoD24Querier) SelectLogs(context.Context, otelstorage.Timestamp, otelstorage.Timestamp, SelectLogsParams) (iterators.Iterator[logstorage.Record], error) {
	return iterators.Slice(q.records), nil
}

// Two operands whose label sets are both empty (an aggregation without grouping and vector(c))
// are the same series: arithmetic combines them, `or` keeps one of them.
func TestDemoD24EmptyLabelSetsMatch(t *testing.T) {
	now := time.Unix(1700000000, 0)
	q := &demoD24Querier{}
	for j := 0; j < 4; j++ {
		attrs := pcommon.NewMap()
		attrs.PutStr("app", "web")
		q.records = append(q.records, logstorage.Record{
			Timestamp:     otelstorage.NewTimestampFromTime(now.Add(-10 * time.Second).Add(time.Duration(j) * time.Millisecond)),
			Attrs:         otelstorage.Attrs(attrs),
			ScopeAttrs:    otelstorage.Attrs(pcommon.NewMap()),
			ResourceAttrs: otelstorage.Attrs(pcommon.NewMap()),
		})
	}
	engine := NewEngine(q, Options{})
	ts := otelstorage.NewTimestampFromTime(now)
	eval := func(query string) []string {
		data, err := engine.Eval(context.Background(), query, EvalParams{Start: ts, End: ts, Limit: 1000})
		require.NoError(t, err)
		v, ok := data.GetVectorResult()
		require.True(t, ok)
		var got []string
		for _, s := range v.Result {
			got = append(got, fmt.Sprintf("%d labels: %s", len(s.Metric.Value), s.Value.V))
		}
		sort.Strings(got)
		return got
	}
	require.Equal(t, []string{"0 labels: 2"}, eval(`sum(count_over_time({app="web"}[1m])) / vector(2)`))
	require.Equal(t, []string{"0 labels: 4"}, eval(`sum(count_over_time({app="web"}[1m])) or vector(0)`))
	require.Equal(t, []string{"0 labels: 4"}, eval(`sum(count_over_time({app="web"}[1m])) and vector(0)`))
}
