package main

import (
	"fmt"
	"go/constant"
	"go/types"
	"sort"
	"strings"

	"golang.org/x/tools/go/ssa"
)

const lexerPkg = "internal/logql/lexer"
const metricPkg = "internal/logql/logqlengine/logqlmetric"

// chSite describes one dispatch site and its expected relation.
type chSite struct {
	Rule     string
	Rel      string // package (module-relative)
	Recv     string // receiver type name ("" for functions)
	Fn       string
	TagType  [2]string // package rel, type name
	TagConst string    // a constant the tag is compared with (selects the tag value)
	// Outcome computes the canonical outcome of a case.
	Outcome  func(r *Run, fn *ssa.Function, cr caseResult) string
	Expected map[string]string // const name -> outcome
	Other    string            // expected outcome of every other constant and of "<other>"
	Claim    string
	// Pin: other tags of the same enum type, selected by a constant they are
	// compared with, are pinned to a constant: {comparedWith, assumedValue}.
	Pin [][2]string
}

func (s *chSite) fnName() string {
	if s.Recv != "" {
		return "(" + s.Recv + ")." + s.Fn
	}
	return s.Fn
}

func resolveFn(p *Program, rel, recv, name string) *ssa.Function {
	if recv != "" {
		return p.Method(rel, strings.TrimPrefix(recv, "*"), name)
	}
	return p.Func(rel, name)
}

// pickTag chooses the SSA value of type T in fn that is compared with the
// constant named cname.
func pickTag(fn *ssa.Function, T types.Type, cval constant.Value) ssa.Value {
	var found ssa.Value
	allInstrs(fn, func(in ssa.Instruction) {
		b, ok := in.(*ssa.BinOp)
		if !ok || found != nil {
			return
		}
		check := func(tag ssa.Value, c ssa.Value) {
			cc, ok := c.(*ssa.Const)
			if !ok || cc.Value == nil {
				return
			}
			if !types.Identical(tag.Type(), T) {
				return
			}
			if _, isC := tag.(*ssa.Const); isC {
				return
			}
			if cc.Value.Kind() == cval.Kind() && constant.Compare(cc.Value, tokenEQL, cval) {
				found = tag
			}
		}
		check(b.X, b.Y)
		check(b.Y, b.X)
	})
	return found
}

func runCHSite(r *Run, s *chSite) {
	p := r.P
	fn := resolveFn(p, s.Rel, s.Recv, s.Fn)
	anchor := r.Ob("ANCHOR", shortRel(s.Rel)+"."+s.fnName(), "anchor function resolves")
	anchor.Trivial = true
	if fn == nil || fn.Blocks == nil {
		anchor.Fail("-", "function not found")
		return
	}
	anchor.OK("resolved").At(r.pos(fn.Pos()))
	T := p.NamedType(s.TagType[0], s.TagType[1])
	if T == nil {
		r.Ob("ANCHOR", s.TagType[0]+"."+s.TagType[1], "enum type resolves").Fail("-", "type not found")
		return
	}
	consts := enumConstants(T)
	cv, ok := consts[s.TagConst]
	if !ok {
		r.Ob("ANCHOR", s.TagType[1]+"."+s.TagConst, "enum constant resolves").Fail("-", "constant not found")
		return
	}
	tag := pickTag(fn, T, cv)
	if tag == nil {
		r.Ob(s.Rule, shortRel(s.Rel)+"."+s.fnName(), s.Claim).Undecide(r.pos(fn.Pos()), "no dispatch on a %s value compared with %s found", s.TagType[1], s.TagConst)
		return
	}
	extra := map[ssa.Value]constant.Value{}
	for _, pin := range s.Pin {
		t2 := pickTag(fn, T, consts[pin[0]])
		if t2 == nil || t2 == tag {
			r.Ob(s.Rule, shortRel(s.Rel)+"."+s.fnName(), s.Claim).Undecide(r.pos(fn.Pos()), "no second dispatch value compared with %s found", pin[0])
			return
		}
		extra[t2] = consts[pin[1]]
	}
	cases := casesOf(fn, tag, consts, extra, nil)
	r.count("ch_cases", len(cases))
	for _, cr := range cases {
		if strings.HasPrefix(cr.Const, "_") {
			continue
		}
		want, listed := s.Expected[cr.Const]
		if !listed {
			want = s.Other
		}
		construct := shortRel(s.Rel) + "." + s.fnName() + "[" + cr.Const + "]"
		o := r.Ob(s.Rule, construct, s.Claim+": "+cr.Const+" -> "+want)
		if !listed {
			o.Trivial = true
		}
		if cr.W.Aborted {
			o.Undecide(r.pos(fn.Pos()), "path enumeration aborted")
			continue
		}
		got := s.Outcome(r, fn, cr)
		if got == want {
			o.OK("outcome %s", got).At(r.pos(fn.Pos()))
		} else {
			o.Fail(r.pos(fn.Pos()), "under %s == %s the outcome is %q, expected %q", s.TagType[1], cr.Const, got, want)
		}
	}
	// expected constants must exist
	for name := range s.Expected {
		if _, ok := consts[name]; !ok {
			r.Ob("ANCHOR", s.TagType[1]+"."+name, "enum constant resolves").Fail("-", "constant %s of the expected table does not exist", name)
		}
	}
}

func shortRel(rel string) string {
	i := strings.LastIndex(rel, "/")
	return rel[i+1:]
}

// ---- outcome functions ----------------------------------------------------

// outFieldConst: the set of constants (named through enum E) stored into the
// given field on non-error paths; "error" if every path is an error return;
// "unset" if some success path never stores.
func outFieldConst(enumRel, enumType, field string, structs ...string) func(r *Run, fn *ssa.Function, cr caseResult) string {
	return func(r *Run, fn *ssa.Function, cr caseResult) string {
		E := r.P.NamedType(enumRel, enumType)
		var consts map[string]constant.Value
		if E != nil {
			consts = enumConstants(E)
		}
		set := map[string]bool{}
		nSuccess := 0
		for _, e := range cr.Ends {
			if e.Cut {
				continue
			}
			if isErr, known := endReturnsError(e); known && isErr {
				continue
			}
			if _, isPanic := e.Term.(*ssa.Panic); isPanic {
				set["panic"] = true
				continue
			}
			nSuccess++
			vals := fieldStores(e, field, structs...)
			if len(vals) == 0 {
				set["unset"] = true
				continue
			}
			for _, v := range vals[len(vals)-1:] {
				if !v.Known {
					set["?"+describe(v.V, 0)] = true
					continue
				}
				if consts != nil {
					set[constName(consts, v.C)] = true
				} else {
					set[v.C.ExactString()] = true
				}
			}
		}
		if nSuccess == 0 && len(set) == 0 {
			return "error"
		}
		return joinSet(set)
	}
}

func joinSet(set map[string]bool) string {
	var xs []string
	for k := range set {
		xs = append(xs, k)
	}
	sort.Strings(xs)
	return strings.Join(xs, "|")
}

// outReturn: canonical description of result #idx over all non-error paths.
func outReturn(idx int, enumRel, enumType string) func(r *Run, fn *ssa.Function, cr caseResult) string {
	return func(r *Run, fn *ssa.Function, cr caseResult) string {
		var consts map[string]constant.Value
		if enumType != "" {
			if E := r.P.NamedType(enumRel, enumType); E != nil {
				consts = enumConstants(E)
			}
		}
		set := map[string]bool{}
		for _, e := range cr.Ends {
			if e.Cut {
				set["cut"] = true
				continue
			}
			if _, isPanic := e.Term.(*ssa.Panic); isPanic {
				set["panic"] = true
				continue
			}
			if isErr, known := endReturnsError(e); known && isErr {
				set["error"] = true
				continue
			}
			if idx >= len(e.Results) {
				set["?"] = true
				continue
			}
			v := e.Results[idx]
			if v.Known {
				if consts != nil {
					set[constName(consts, v.C)] = true
				} else {
					set[v.C.ExactString()] = true
				}
				continue
			}
			set[describeBuilt(v.V)] = true
		}
		return joinSet(set)
	}
}

// describeBuilt describes a constructed value: the concrete type put into an
// interface, with its type arguments, or a closure/function.
func describeBuilt(v ssa.Value) string {
	switch x := v.(type) {
	case *ssa.MakeInterface:
		return "type:" + shortType(x.X.Type())
	case *ssa.MakeClosure:
		return "closure:" + shortFuncName(x.Fn.(*ssa.Function))
	case *ssa.Function:
		return "func:" + shortFuncName(x)
	case *ssa.Alloc:
		return "type:" + shortType(x.Type())
	}
	if isNilConst(v) {
		return "nil"
	}
	return describe(v, 0)
}

// ---- C05 / C01: token -> operator sites -----------------------------------

func tokOp(pairs ...string) map[string]string {
	m := map[string]string{}
	for i := 0; i+1 < len(pairs); i += 2 {
		m[pairs[i]] = pairs[i+1]
	}
	return m
}

func parseOpSites() []*chSite {
	tt := [2]string{lexerPkg, "TokenType"}
	return []*chSite{
		{
			Rule: "CH-MAP", Rel: logqlPkg, Recv: "*parser", Fn: "parseLabelMatcher", TagType: tt, TagConst: "Eq",
			Outcome:  outFieldConst(logqlPkg, "BinOp", "Op", "LabelMatcher"),
			Expected: tokOp("Eq", "OpEq", "NotEq", "OpNotEq", "Re", "OpRe", "NotRe", "OpNotRe"),
			Other:    "error",
			Claim:    "selector matcher operator token maps to the operator it spells",
		},
		{
			Rule: "CH-MAP", Rel: logqlPkg, Recv: "*parser", Fn: "parseLineFilter", TagType: tt, TagConst: "PipeExact",
			Outcome:  outFieldConst(logqlPkg, "BinOp", "Op", "LineFilter"),
			Expected: tokOp("PipeExact", "OpEq", "PipeMatch", "OpRe", "NotEq", "OpNotEq", "NotRe", "OpNotRe"),
			Other:    "error",
			Claim:    "line filter token maps to the operator it spells",
		},
		{
			Rule: "CH-MAP", Rel: logqlPkg, Recv: "*parser", Fn: "parseLabelPredicate", TagType: tt, TagConst: "CmpEq",
			Outcome: outFieldConst(logqlPkg, "BinOp", "Op", "LabelMatcher", "NumberFilter", "DurationFilter", "BytesFilter", "IPFilter"),
			Expected: tokOp("Eq", "OpEq", "CmpEq", "OpEq", "NotEq", "OpNotEq", "Re", "OpRe", "NotRe", "OpNotRe",
				"Gt", "OpGt", "Gte", "OpGte", "Lt", "OpLt", "Lte", "OpLte"),
			Other: "error",
			Claim: "label predicate comparison token maps to the operator it spells",
			// fix the leading token to Ident so that only the comparison arm is explored
			Pin: [][2]string{{"OpenParen", "Ident"}},
		},
	}
}


var tokenEQL = tokenEQLv()

func ruleCHParseOps(r *Run) {
	for _, s := range parseOpSites() {
		runCHSite(r, s)
	}
}

var _ = fmt.Sprintf
