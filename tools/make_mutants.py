#!/usr/bin/env python3
"""Own one-edit mutants (positive controls, DESIGN.md appendix H). Each entry is
(property, name, file, old, new). The script applies each to a scratch copy of /repo, checks that it
builds, and writes /verif/mutants/<property>/<name>.patch. Usage: tools/make_mutants.py [name-substring]"""
import os, subprocess, sys, shutil
M = [
 ("C08","labelset-string-unsorted","internal/logql/logqlengine/label_set.go","	slices.Sort(keys)\n","	_ = slices.Sort[[]string]\n"),
 ("C15","render-unsorted","cmd/docker-logql/query.go","		slices.SortFunc(entries, func(a, b entry) int {","		_ = entries\n		_ = slices.SortFunc[[]entry]\n		func(_ []entry, _ func(a, b entry) int) {}(entries, func(a, b entry) int {"),
 ("C14","build-range-no-close-on-error","internal/logql/logqlengine/logqlmetric/build.go","		defer closeOnError(iter)\n\n		return RangeAggregation(","		return RangeAggregation("),
 ("C14","binop-close-left-only","internal/logql/logqlengine/logqlmetric/bin_op.go","func (i *binOpIterator) Close() error {\n	return multierr.Append(\n		i.left.Close(),\n		i.right.Close(),\n	)\n}","func (i *binOpIterator) Close() error {\n	return i.left.Close()\n}"),
 ("C14","selectlogs-pipeline-after-select","internal/logql/logqlengine/eval_streams.go","	pipeline, err := BuildPipeline(stages...)\n	if err != nil {\n		return nil, errors.Wrap(err, \"build pipeline\")\n	}\n\n	iter, err := e.querier.SelectLogs(ctx,\n		params.Start,\n		params.End,\n		cond.params,\n	)\n	if err != nil {\n		return nil, errors.Wrap(err, \"get logs\")\n	}\n","	iter, err := e.querier.SelectLogs(ctx,\n		params.Start,\n		params.End,\n		cond.params,\n	)\n	if err != nil {\n		return nil, errors.Wrap(err, \"get logs\")\n	}\n\n	pipeline, err := BuildPipeline(stages...)\n	if err != nil {\n		return nil, errors.Wrap(err, \"build pipeline\")\n	}\n"),
 ("C03","short-payload-clean-end","internal/dockerlog/daemonlog.go","		return false, errors.Wrap(err, \"read message\")","		return false, nil"),
 ("C14","groupentries-err-dropped","internal/logql/logqlengine/eval_streams.go","	if err := iter.Err(); err != nil {\n		return s, err\n	}\n","	_ = iter.Err()\n"),
 ("C14","mergeiter-err-first-only","internal/dockerlog/merge_iter.go","	for _, iter := range i.iters {\n		multierr.AppendInto(&rerr, iter.Err())\n	}\n	return rerr","	for _, iter := range i.iters {\n		multierr.AppendInto(&rerr, iter.Err())\n		return rerr\n	}\n	return rerr"),
 ("C05","labelfilter-gt-is-gte","internal/logql/parser_pipeline.go","		case lexer.Gt:\n			op = OpGt\n","		case lexer.Gt:\n			op = OpGte\n"),
 ("C01","notre-without-not","internal/logql/logqlengine/string_matcher.go","		m = NotMatcher[string, RegexpMatcher]{Next: RegexpMatcher{Re: re}}","		m = RegexpMatcher{Re: re}"),
 ("C11","max-builds-min","internal/logql/logqlengine/logqlmetric/stream_aggregator.go","			return &MaxAggregator{}","			return &MinAggregator{}"),
 ("C12","sub-adds","internal/logql/logqlengine/logqlmetric/sample_op.go","			result.Data -= right.Data","			result.Data += right.Data"),
 ("C13","mul-precedence-lowered","internal/logql/op.go","	case OpMul, OpDiv, OpMod:\n		return 5","	case OpMul, OpDiv, OpMod:\n		return 4"),
 ("C01","pipeline-skips-first-stage","internal/logql/logqlengine/processor.go","	for _, s := range p.Stages {","	for _, s := range p.Stages[1:] {"),
 ("C08","limit-off-by-one","internal/logql/logqlengine/eval_streams.go","i.entries >= i.limit","i.entries > i.limit"),
 ("C09","window-end-exclusive","internal/logql/logqlengine/logqlmetric/range_agg.go","		case ts.After(windowEnd):","		case !ts.Before(windowEnd):"),
 ("C09","stepper-end-exclusive","internal/logql/logqlengine/logqlmetric/step.go","	if s.current.After(s.end) {","	if !s.current.Before(s.end) {"),
 ("C20","slow-path-accepts-dot","internal/otelstorage/attrs.go","		if r == '_' || isDigit(r) || isAlpha(r) {\n			label.WriteRune(r)","		if r == '_' || r == '.' || isDigit(r) || isAlpha(r) {\n			label.WriteRune(r)"),
 ("C20","leading-digit-kept","internal/otelstorage/attrs.go","			if i == 0 {\n				label.WriteString(\"_\")\n				goto slow\n			}\n","			if i == 0 && false {\n				label.WriteString(\"_\")\n				goto slow\n			}\n"),
 ("C16","seconds-threshold-9","cmd/docker-logql/params.go","	if len(value) <= 10 {","	if len(value) <= 9 {"),
 ("C02","since-until-swapped","internal/dockerlog/dockerlog.go","		Since:      since,\n		Until:      until,\n","		Since:      until,\n		Until:      since,\n"),
 ("C02","selector-regex-unanchored","internal/logql/label.go","	return regexp.Compile(\"^(?:\" + re + \")$\")","	return regexp.Compile(re)"),
 ("C03","size-offset-3","internal/dockerlog/daemonlog.go","i.header[4:8]","i.header[3:7]"),
 ("C03","header-plain-read","internal/dockerlog/daemonlog.go","io.ReadFull(i.rd, i.header[:])","i.rd.Read(i.header[:])"),
 ("C12","literal-left-arm-swapped","internal/logql/logqlengine/logqlmetric/build.go","			return LiteralBinOp(right, expr, lit.Value, true)","			return LiteralBinOp(right, expr, lit.Value, false)"),
 ("C07","line-func-is-timestamp","internal/logql/logqlengine/template.go","	funcMap[\"__line__\"] = currentLine","	funcMap[\"__line__\"] = func() string { return currentTimestamp().String() }"),
 ("C17","ipfilter-unhandled","internal/logql/logqlengine/label_filter.go","	case *logql.IPFilter:\n		return buildIPLabelFilter(pred)\n","	case *logql.IPFilter:\n		panic(\"unreachable\")\n"),
 ("C06","json-drops-on-error","internal/logql/logqlengine/json.go","		set.SetError(\"JSON parsing error\", err)\n	}\n	return line, true","		set.SetError(\"JSON parsing error\", err)\n	}\n	return line, err == nil"),
 ("C19","and-ignores-left-reject","internal/logql/logqlengine/label_filter.go","	line, keep = m.Left.Process(ts, line, set)\n	if !keep {\n		return line, keep\n	}\n	return m.Right.Process(ts, line, set)","	line, _ = m.Left.Process(ts, line, set)\n	return m.Right.Process(ts, line, set)"),
 ("C10","key-skips-values","internal/logql/logqlengine/logqlmetric/aggregated_labels.go","X","X"),
 ("C18","streams-unsorted","internal/logql/logqlengine/eval_streams.go","X","X"),
]
REPO='/repo'; S='/var/tmp/mkmut'; V='/verif/mutants'
env=dict(os.environ, GOFLAGS='-mod=mod', GOPROXY='off', GOSUMDB='off', GOTOOLCHAIN='local'); env.pop('GOWORK',None)
flt = sys.argv[1] if len(sys.argv)>1 else ''
shutil.rmtree(S, ignore_errors=True)
subprocess.run(['rsync','-a','--exclude','.git',REPO+'/',S+'/'],check=True)
for prop,name,f,old,new in M:
    if flt and flt not in name: continue
    if old=='X': continue
    src=open(os.path.join(REPO,f)).read()
    if src.count(old)!=1:
        print('SKIP %s/%s: old text found %d times'%(prop,name,src.count(old))); continue
    open(os.path.join(S,f),'w').write(src.replace(old,new))
    b=subprocess.run(['go','build','./...'],cwd=S,env=env,capture_output=True,text=True)
    if b.returncode!=0:
        print('BUILD FAILS %s/%s: %s'%(prop,name,b.stderr.strip().split('\n')[-1][:200]))
    else:
        d=subprocess.run(['diff','-u','--label','a/'+f,'--label','b/'+f,os.path.join(REPO,f),os.path.join(S,f)],capture_output=True,text=True)
        os.makedirs(os.path.join(V,prop),exist_ok=True)
        open(os.path.join(V,prop,name+'.patch'),'w').write(d.stdout)
        print('ok %s/%s'%(prop,name))
    open(os.path.join(S,f),'w').write(src)
shutil.rmtree(S, ignore_errors=True)
