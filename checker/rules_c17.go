package main

import (
	"fmt"
	"go/ast"
	"go/constant"
	"go/token"
	"go/types"
	"regexp"
	"sort"
	"strings"

	"golang.org/x/tools/go/packages"
	"golang.org/x/tools/go/ssa"
)

func inScopePkg(fn *ssa.Function) bool {
	pk := fn.Pkg
	if pk == nil && fn.Parent() != nil {
		pk = fn.Parent().Pkg
	}
	if pk == nil {
		return false
	}
	path := pk.Pkg.Path()
	if !isFirstParty(path) {
		return false
	}
	// generated API client and version banner are not on the evaluation path
	return !strings.HasSuffix(path, "/internal/lokiapi") && !strings.HasSuffix(path, "/internal/cliversion")
}

// mapLiteralKeysOfPkgVar: string keys of a package-level map literal in any loaded package.
func mapLiteralKeysOfPkgVar(pkg *packages.Package, name string) (map[string]bool, bool) {
	if pkg == nil {
		return nil, false
	}
	for _, f := range pkg.Syntax {
		for _, d := range f.Decls {
			gd, ok := d.(*ast.GenDecl)
			if !ok || gd.Tok != token.VAR {
				continue
			}
			for _, sp := range gd.Specs {
				vs := sp.(*ast.ValueSpec)
				for i, id := range vs.Names {
					if id.Name != name || i >= len(vs.Values) {
						continue
					}
					cl, ok := vs.Values[i].(*ast.CompositeLit)
					if !ok {
						return nil, false
					}
					keys := map[string]bool{}
					for _, el := range cl.Elts {
						kv, ok := el.(*ast.KeyValueExpr)
						if !ok {
							continue
						}
						if tv, ok := pkg.TypesInfo.Types[kv.Key]; ok && tv.Value != nil && tv.Value.Kind() == constant.String {
							keys[constant.StringVal(tv.Value)] = true
						}
					}
					return keys, true
				}
			}
		}
	}
	return nil, false
}

func rulePanicInventory(r *Run) {
	p := r.P
	// ---- explicit panics
	type site struct {
		fn *ssa.Function
		in *ssa.Panic
	}
	var sites []site
	for _, fn := range p.SrcFuncs() {
		if !inScopePkg(fn) {
			continue
		}
		allInstrs(fn, func(in ssa.Instruction) {
			if pn, ok := in.(*ssa.Panic); ok {
				sites = append(sites, site{fn, pn})
			}
		})
	}
	r.count("explicit_panics", len(sites))
	for i, s := range sites {
		name := shortFuncName(s.fn)
		o := r.Ob("PF-PANIC", fmt.Sprintf("%s panic#%d", name, i), "an explicit panic in code reachable from query evaluation is provably dead")
		o.At(r.pos(s.in.Pos()))
		switch {
		case strings.HasSuffix(name, "logqlengine.buildLabelPredicate"):
			// dead iff the type switch covers every LabelPredicate implementer: decided by CH-EXH below
			impls := implementersOf(p, logqlPkg, "LabelPredicate")
			covered := true
			var missing []string
			var sw ssa.Value
			asserted := map[string]bool{}
			allInstrs(s.fn, func(in ssa.Instruction) {
				if ta, ok := in.(*ssa.TypeAssert); ok && ta.CommaOk {
					if sw == nil {
						sw = ta.X
					}
					asserted[shortType(ta.AssertedType)] = true
				}
			})
			for _, T := range impls {
				if !asserted[shortType(T)] {
					covered = false
					missing = append(missing, shortType(T))
				}
			}
			if covered && len(impls) >= 7 {
				o.OK("default arm unreachable: all %d LabelPredicate implementers have a case", len(impls))
			} else {
				o.Fail(r.pos(s.in.Pos()), "the panic is reachable for predicate type(s) %v", missing)
			}
		case strings.HasSuffix(name, "logqlengine.tmplFunctions"):
			// every requested sprig name is a key of sprig's genericMap literal
			sprig := p.ByPath["github.com/Masterminds/sprig/v3"]
			keys, ok := mapLiteralKeysOfPkgVar(sprig, "genericMap")
			if !ok {
				o.Undecide(r.pos(s.in.Pos()), "sprig's function table (genericMap) could not be read from the module cache")
				break
			}
			// requested names: string constants stored into the []string literal ranged in tmplFunctions
			var req []string
			allInstrs(s.fn, func(in ssa.Instruction) {
				if st, ok := in.(*ssa.Store); ok {
					if _, ok := st.Addr.(*ssa.IndexAddr); ok {
						if sv, ok := constStr(st.Val); ok {
							req = append(req, sv)
						}
					}
				}
			})
			var missing []string
			for _, n := range req {
				if !keys[n] {
					missing = append(missing, n)
				}
			}
			sort.Strings(missing)
			// the panic must be on the miss edge of the lookup in sprigFuncs
			if len(req) < 30 {
				o.Undecide(r.pos(s.in.Pos()), "only %d requested sprig names found", len(req))
			} else if len(missing) > 0 {
				o.Fail(r.pos(s.in.Pos()), "sprig has no function(s) %v: compiling any template panics", missing)
			} else {
				o.OK("all %d requested sprig functions exist in sprig's genericMap (%d entries)", len(req), len(keys))
			}
		default:
			o.Fail(r.pos(s.in.Pos()), "unclassified explicit panic in %s: it must be shown dead or turned into an error", name)
		}
	}
	inv := r.Ob("PF-PANIC", "inventory", "explicit panics are inventoried")
	inv.Trivial = true
	inv.OK("%d explicit panic site(s) in first-party evaluation code", len(sites))

	// ---- unchecked type assertions
	nTA := 0
	for _, fn := range p.SrcFuncs() {
		if !inScopePkg(fn) {
			continue
		}
		allInstrs(fn, func(in ssa.Instruction) {
			ta, ok := in.(*ssa.TypeAssert)
			if !ok || ta.CommaOk {
				return
			}
			nTA++
			name := shortFuncName(fn)
			o := r.Ob("PF-ASSERT", fmt.Sprintf("%s .(%s)", name, shortType(ta.AssertedType)), "an unchecked type assertion cannot fail")
			o.At(r.pos(ta.Pos()))
			// container/heap protocol: x.(T) in Push(x any) of a heap type, or on the result of heap.Pop(h)
			justified := false
			if fn.Name() == "Push" && fn.Signature.Recv() != nil && ta.X == ssa.Value(fn.Params[len(fn.Params)-1]) {
				// every heap.Push(h, v) with h of this receiver type passes v of the asserted type
				recvT := fn.Signature.Recv().Type()
				allOK, n := true, 0
				for _, g := range p.SrcFuncs() {
					for _, c := range callsIn(g) {
						if !callIs(c, "container/heap", "Push") {
							continue
						}
						h := stripTypeOnly(c.Common().Args[0])
						if !types.Identical(h.Type(), recvT) {
							continue
						}
						n++
						v := stripTypeOnly(c.Common().Args[1])
						if !types.Identical(v.Type(), ta.AssertedType) {
							allOK = false
						}
					}
				}
				if allOK && n > 0 {
					justified = true
					o.OK("heap adapter: all %d heap.Push calls on %s push a %s", n, shortType(recvT), shortType(ta.AssertedType))
				}
			}
			if c, ok := ta.X.(*ssa.Call); ok && callIs(c, "container/heap", "Pop") {
				// Pop returns what the adapter's Pop returns: elements of its slice, of the asserted type
				h := stripTypeOnly(c.Call.Args[0])
				if pt, ok := h.Type().Underlying().(*types.Pointer); ok {
					if n := namedOf(pt.Elem()); n != nil {
						if sl, ok := n.Underlying().(*types.Slice); ok && types.Identical(sl.Elem(), ta.AssertedType) {
							justified = true
							o.OK("heap.Pop on a %s yields its element type", shortType(pt.Elem()))
						}
					}
				}
			}
			if !justified {
				o.Fail(r.pos(ta.Pos()), "the assertion %s.(%s) has no comma-ok and no protocol argument: a value of another type panics", describe(ta.X, 0), shortType(ta.AssertedType))
			}
		})
	}
	r.count("unchecked_assertions", nTA)

	// ---- MustCompile on constants that compile
	for _, fn := range p.SrcFuncs() {
		if !inScopePkg(fn) {
			continue
		}
		for _, c := range callsIn(fn) {
			if !callIs(c, "regexp", "MustCompile") {
				continue
			}
			o := r.Ob("PF-REGEXP", shortFuncName(fn)+" MustCompile", "regexp.MustCompile is only applied to a constant pattern that compiles")
			o.At(r.pos(c.Pos()))
			pat, ok := constStr(c.Common().Args[0])
			if !ok {
				o.Fail(r.pos(c.Pos()), "MustCompile on a non-constant pattern %s", describe(c.Common().Args[0], 0))
				continue
			}
			if _, err := regexp.Compile(pat); err != nil {
				o.Fail(r.pos(c.Pos()), "the constant pattern does not compile: %v", err)
				continue
			}
			o.OK("constant pattern compiles")
		}
	}

	// ---- integer division / modulo by a provably non-zero divisor
	nDiv := 0
	for _, fn := range p.SrcFuncs() {
		if !inScopePkg(fn) {
			continue
		}
		allInstrs(fn, func(in ssa.Instruction) {
			b, ok := in.(*ssa.BinOp)
			if !ok || (b.Op != token.QUO && b.Op != token.REM) {
				return
			}
			bt, ok := b.Type().Underlying().(*types.Basic)
			if !ok || bt.Info()&types.IsInteger == 0 {
				return
			}
			nDiv++
			o := r.Ob("PF-DIV", fmt.Sprintf("%s %s#%d", shortFuncName(fn), b.Op, nDiv), "an integer division cannot divide by zero")
			o.At(r.pos(b.Pos()))
			if c, ok := constInt(b.Y); ok && c != 0 {
				o.OK("constant divisor %d", c)
				return
			}
			// len of a non-empty package-level literal
			if lc, ok := b.Y.(*ssa.Call); ok {
				if bi, ok := lc.Call.Value.(*ssa.Builtin); ok && bi.Name() == "len" {
					if u, ok := lc.Call.Args[0].(*ssa.UnOp); ok {
						if g, ok := u.X.(*ssa.Global); ok && globalName(g) == "names" && len(namesLiteral(p)) > 0 {
							o.OK("divisor is len(names) of a %d-element literal that is never reassigned", len(namesLiteral(p)))
							// never reassigned
							for _, f2 := range p.SrcFuncs() {
								allInstrs(f2, func(in2 ssa.Instruction) {
									if st, ok := in2.(*ssa.Store); ok && st.Addr == ssa.Value(g) && f2.Name() != "init" {
										o.Fail(r.pos(st.Pos()), "names is reassigned at run time")
									}
								})
							}
							return
						}
					}
				}
			}
			o.Fail(r.pos(b.Pos()), "divisor %s is not provably non-zero", describe(b.Y, 0))
		})
	}
	r.count("integer_divisions", nDiv)

	// ---- quantile guards
	qf := p.Func(metricPkg, "quantile")
	oq := r.Ob("FE-NONEMPTY", "logqlmetric.quantile index", "the two interpolation indexes are inside the points: empty input, q < 0 and q > 1 return before indexing")
	if qf == nil {
		oq.Fail("-", "function not found")
	} else {
		bad := false
		n := 0
		allInstrs(qf, func(in ssa.Instruction) {
			ia, ok := in.(*ssa.IndexAddr)
			if !ok || ia.X != ssa.Value(qf.Params[1]) {
				return
			}
			n++
			var empty, neg, big bool
			for _, f := range factsAt(ia.Block()) {
				b, ok := f.Cond.(*ssa.BinOp)
				if !ok {
					continue
				}
				if c, ok := b.X.(*ssa.Call); ok {
					if bi, ok := c.Call.Value.(*ssa.Builtin); ok && bi.Name() == "len" {
						if z, ok := constInt(b.Y); ok && z == 0 && b.Op == token.EQL && !f.Truth {
							empty = true
						}
					}
				}
				if b.X == ssa.Value(qf.Params[0]) {
					if cv, ok := constOf(b.Y); ok {
						fv, _ := constant.Float64Val(cv)
						if b.Op == token.LSS && fv == 0 && !f.Truth {
							neg = true
						}
						if b.Op == token.GTR && fv == 1 && !f.Truth {
							big = true
						}
					}
				}
			}
			if !(empty && neg && big) {
				bad = true
				oq.Fail(r.pos(ia.Pos()), "values[..] is reached without all three guards (non-empty=%v, q>=0=%v, q<=1=%v): rank q*(n-1) may lie outside the points", empty, neg, big)
			}
		})
		if n == 0 {
			bad = true
			oq.Fail(r.pos(qf.Pos()), "no indexing of the points found")
		}
		if !bad {
			oq.OK("%d index expression(s) dominated by len != 0, !(q < 0), !(q > 1)", n).At(r.pos(qf.Pos()))
		}
	}
	// sampleHeap.Min only on a non-empty heap
	hn := p.Method(metricPkg, "vectorAggHeapIterator", "Next")
	omn := r.Ob("FE-NONEMPTY", "logqlmetric.sampleHeap.Min", "heap.Min() (elements[0]) is evaluated only when the heap is full with a positive limit, hence non-empty")
	if hn == nil {
		omn.Fail("-", "method not found")
	} else {
		bad := false
		n := 0
		for _, c := range callsIn(hn) {
			if callee := staticCallee(c); callee != nil && cname(callee) == "Min" {
				n++
				// facts: limit == 0 false (early return), limit < 0 false, Len() < limit false  => Len() >= limit > 0
				var zero, negF, room bool
				for _, f := range factsAt(c.Block()) {
					b, ok := f.Cond.(*ssa.BinOp)
					if !ok {
						continue
					}
					if fx, _, ok := loadOfField(b.X); ok && fx == "limit" {
						if z, ok := constInt(b.Y); ok && z == 0 {
							if b.Op == token.EQL && !f.Truth {
								zero = true
							}
							if b.Op == token.LSS && !f.Truth {
								negF = true
							}
						}
					}
					if lc, ok := b.X.(*ssa.Call); ok && staticCallee(lc) != nil && cname(staticCallee(lc)) == "Len" && b.Op == token.LSS && !f.Truth {
						room = true
					}
				}
				if !(zero && negF && room) {
					bad = true
					omn.Fail(r.pos(c.Pos()), "Min() is reached without limit != 0 (%v), limit >= 0 (%v) and Len() >= limit (%v)", zero, negF, room)
				}
			}
		}
		if n == 0 {
			omn.OK("Min is not used")
		} else if !bad {
			omn.OK("%d call(s) under limit > 0 and Len() >= limit", n).At(r.pos(hn.Pos()))
		}
	}
}

// ruleBuilderErrors: user-input mistakes reach errors in every builder.
func ruleBuilderErrors(r *Run) {
	p := r.P
	n := 0
	for _, fn := range p.SrcFuncs() {
		if !inScopePkg(fn) || fn.Pkg == nil {
			continue
		}
		path := fn.Pkg.Pkg.Path()
		if !(strings.HasSuffix(path, enginePkg) || strings.HasSuffix(path, metricPkg)) {
			continue
		}
		res := fn.Signature.Results()
		if res.Len() != 2 || !isErrorType(res.At(1).Type()) {
			continue
		}
		nm := fn.Name()
		if !(strings.HasPrefix(nm, "build") || strings.HasPrefix(nm, "Build") || nm == "newSampleIterator" || nm == "RangeAggregation" || nm == "VectorAggregation" || nm == "BinOp" || nm == "LiteralBinOp" || nm == "compileTemplate") {
			continue
		}
		n++
		ruleErrChecked(r, fn)
		opts := errPropOpts{}
		if nm == "buildIPMatcher" {
			// try-the-next-spelling idiom: a pattern that is not a range / prefix is parsed as a plain address, whose error is returned
			opts.Ignore = map[string]string{"go4.org/netipx.ParseIPRange": "falls back to prefix/address parsing", "net/netip.ParsePrefix": "falls back to address parsing"}
		}
		ruleErrProp(r, fn, opts)
	}
	r.count("builder_functions", n)
	inv := r.Ob("ERR-CHECKED", "builders inventory", "at least the confirmed number of builder functions is analysed")
	inv.Trivial = true
	inv.Check(n >= 20, "-", fmt.Sprintf("%d builders", n), fmt.Sprintf("only %d builders found, floor 20", n))
}

// ruleCallDerivedBounds (PF-BOUNDS): an index or slice bound that is computed from the result of a
// search-like call (strings.Index*, regexp Find*Index, utf8 decoding, ...: functions that report
// "not found" as -1 or hand out offsets) is used only under a test of that value against a
// constant (>= 0, != -1, < 0 -> leave) or against a length. Unchecked, a miss indexes with -1 and panics.
func ruleCallDerivedBounds(r *Run, rels []string) {
	p := r.P
	o := r.Ob("PF-BOUNDS", "indexes from search results", "an index or slice bound derived from a search result (which is -1 when nothing was found) is used only under a test of that value")
	n, bad := 0, false
	// the search-like origin of a bound: the call (or element of a call's result) it is computed from
	var origin func(v ssa.Value, depth int) ssa.Value
	origin = func(v ssa.Value, depth int) ssa.Value {
		if v == nil || depth > 8 {
			return nil
		}
		switch x := v.(type) {
		case *ssa.Const, *ssa.Parameter, *ssa.Phi:
			return nil
		case *ssa.Convert:
			return origin(x.X, depth+1)
		case *ssa.BinOp:
			if a := origin(x.X, depth+1); a != nil {
				return a
			}
			return origin(x.Y, depth+1)
		case *ssa.Extract:
			return origin(x.Tuple, depth+1)
		case *ssa.UnOp:
			if x.Op == token.MUL {
				if ia, ok := x.X.(*ssa.IndexAddr); ok {
					// an element of a slice that a call returned (offset tables)
					if c, ok := unspill(ia.X).(*ssa.Call); ok && searchLike(c) {
						return x
					}
				}
				if al, ok := x.X.(*ssa.Alloc); ok {
					for _, st := range storesTo(al) {
						if a := origin(st.Val, depth+1); a != nil {
							return a
						}
					}
				}
			}
			return nil
		case *ssa.Call:
			if searchLike(x) {
				return x
			}
		}
		return nil
	}
	guarded := func(at *ssa.BasicBlock, src ssa.Value) bool {
		for _, f := range factsAt(at) {
			b, ok := f.Cond.(*ssa.BinOp)
			if !ok {
				continue
			}
			for _, side := range []ssa.Value{b.X, b.Y} {
				if side == src || origin(side, 0) == src {
					return true
				}
			}
		}
		return false
	}
	for _, fn := range p.SrcFuncs() {
		pk := fn.Pkg
		if pk == nil && fn.Parent() != nil {
			pk = fn.Parent().Pkg
		}
		in := false
		for _, rel := range rels {
			if pk != nil && pk.Pkg.Path() == modPath+"/"+rel {
				in = true
			}
		}
		if !in {
			continue
		}
		allInstrs(fn, func(ins ssa.Instruction) {
			var bounds []ssa.Value
			switch x := ins.(type) {
			case *ssa.Slice:
				bounds = append(bounds, x.Low, x.High, x.Max)
			case *ssa.IndexAddr:
				bounds = append(bounds, x.Index)
			case *ssa.Index:
				bounds = append(bounds, x.Index)
			default:
				return
			}
			for _, bv := range bounds {
				src := origin(bv, 0)
				if src == nil {
					continue
				}
				n++
				if !guarded(ins.Block(), src) {
					bad = true
					o.Fail(r.pos(ins.Pos()), "%s indexes with %s, derived from the search result %s, without a test of that value: a miss (-1) panics", shortFuncName(fn), describe(bv, 1), describe(src, 1))
				}
			}
		})
	}
	r.count("search_derived_bounds", n)
	if !bad {
		o.OK("%d index/slice bound(s) derived from search results, each under a test of the value", n)
	}
}

// searchLike: functions whose integer results are positions that may be -1 / out of range.
func searchLike(c *ssa.Call) bool {
	pk, nm := calleePkgName(c)
	switch pk {
	case "strings", "bytes":
		return strings.HasPrefix(nm, "Index") || strings.HasPrefix(nm, "LastIndex")
	case "regexp":
		return strings.HasSuffix(nm, "Index")
	case "slices":
		return nm == "Index" || nm == "IndexFunc" || nm == "BinarySearch"
	case "sort":
		return strings.HasPrefix(nm, "Search")
	}
	return false
}
