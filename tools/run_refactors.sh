#!/bin/bash
# usage: run_refactors.sh <dir-with-rN/patch.diff ...>  — run ALL property checks against each behaviour-preserving patch; any alarm is a false alarm
for d in "$@"; do d=$(realpath $d)
  [ -f $d/patch.diff ] || continue
  S=/var/tmp/rf.$$; V=/var/tmp/rfv.$$; rm -rf $S $V; mkdir -p $V
  rsync -a --exclude .git /repo/ $S/; cp /verif/known_findings.json /verif/properties.jsonl $V/
  if ! (cd $S && patch -p1 -s < $d/patch.diff) ; then echo "== $d: PATCH FAILED"; rm -rf $S $V; continue; fi
  out=$(VERIF_REPO=$S VERIF_DIR=$V ${VERIFCHECK:-/verif/bin/verifcheck} all --tier quick 2>&1)
  n=$(echo "$out" | grep -c "^VIOLATION")
  if [ "$n" = 0 ]; then echo "== $d: silent ($(jq -r .title $d/meta.json 2>/dev/null | cut -c1-70))"; else echo "== $d: FALSE ALARM in $(echo "$out" | grep "^VIOLATION" | sed 's/.*property=\(C[0-9]*\).*/\1/' | tr '\n' ' ') ($(jq -r .title $d/meta.json 2>/dev/null | cut -c1-70))"; echo "$out" | grep -E "^  (VIOLATED|UNDECIDED|ANALYSIS)" | cut -c1-${CUT:-260} | head -${HEAD:-6}; fi
  rm -rf $S $V
done
