package main

func init() {
	register(&PropSpec{
		ID:          "C06",
		Technique:   "SSA summaries of the parser-stage processors (never drop, never change the line; input line on the error path), error-to-__error__ flow over feasible paths, provenance pairing of extracted field and label, JSON token-kind chains",
		Explanation: "Decides the structural clauses of the parser stages for all lines: json/logfmt/regexp/pattern return (input line, true) on every path, unpack returns the input line whenever it failed; every extraction error reaches SetError (first error wins); fields are stored under the label they belong to with the membership test the right way round; JSON leaves are exposed by kind without numeric round trips; the JSON path walker's push/pop discipline.",
		Decided: []string{
			"PV-INJKEY (shared with C08): the stream key quotes every label value, so extracted fields cannot collide",
			"PV-PAIR regexp: every mapped capture is exposed (the Set call is guarded by the mapping test only); PV-WHOLE: jsonexpr Path.Equal compares every field of a selector",
			"LP-CLASS / LP-ERRPATH: JSON, logfmt, regexp, pattern are (Param, AlwaysTrue); unpack (and line_format, shared with C07) return the unchanged line and flag __error__ on failure",
			"ERR-PROP(SetError) / ERR-LOOP: extraction helpers propagate every callee error; logfmt returns d.Err() after exhausting both scan loops; SetError is first-wins",
			"PV-PAIR / PV-CONST: json field list polarity and key identity; logfmt requested-key table; regexp capture index pairing; unpack's _entry; extractAll sanitises keys (C20)",
			"CH-MAP: jsonexpr.walk token kind -> exposed text (number through d.Num, no float conversion); PV-OKUSE: parseValue's nested elements used only under ok",
			"PV-ORDER / FE-BOOL: jsonexpr push/walk/pop, index increment, extract only under current.Equal(path)",
			"LP-ATTEMPT: every return of a parser stage is behind a call handing the line to the extraction step; PV-GUARD: unpack validates a key only when the field becomes a label",
			"PV-PAIR: regexp group labels are keyed by the index in re.SubexpNames(); PV-FRESH JSON path stack",
			"PV-WHOLE: every json expression reaches the path table; PV-GUARD: a pattern capture is withheld iff it is named exactly `_`",
			"PV-API IsValidLabel: first character by the identifier-start predicate, the rest by the identifier predicate (the names unpack and regexp accept)",
			"LP-PIPE: each stage is fed the previous stage's line",
			"PV-API pattern literals are prefixes; pattern/JSON-path readers decode runes; KeyToLabel class table",
			"PV-ALIAS no unsafe.String in the engine or the backend; LP-OFFLOAD stops at stages that rewrite the line (unpack included)",
			"MO over the JSON path table: what is extracted does not depend on the order the paths are visited",
			"PV-ORDER the label set is reset for every record read; PV-PURE extractors never read the label set",
			"PV-TOTAL unpack: the decoded _entry is never compared with a constant (an empty _entry replaces the line like any other)",
		},
		NotDecided: []string{"that jx, logfmt and regexp return the values that are in the document", "logqlpattern.Match's literal/capture alternation", "JSON path parsing"},
		Rules: func(r *Run) {
			ruleLabelSetString(r) // the fields a parser stage exposes reach the result under their own names and values: the stream key quotes every value
			ruleLPClass(r, func(s string) bool {
				switch s {
				case "JSONExpressionParser", "LogfmtExpressionParser", "RegexpLabelParser", "PatternLabelParser", "UnpackLabelParser":
					return true
				}
				return false
			})
			ruleErrorPathKeepsLine(r, []string{"JSONExtractor", "LogfmtExtractor", "UnpackExtractor"})
			ruleExtractorErrors(r)
			ruleLabelIdentity(r)
			ruleJSONLeaves(r)
			ruleJSONPathWalk(r)
			ruleStructEquality(r, "internal/logql/logqlengine/jsonexpr", "Path", "Equal")
			ruleSetErrorFirstWins(r)
			ruleSanitiserSites(r)
			ruleParserAttempts(r, []string{"JSONExtractor", "LogfmtExtractor", "UnpackExtractor", "RegexpExtractor", "PatternExtractor"})
			ruleUnpackValidationScope(r)
			ruleJSONPathStateFresh(r)
			ruleRegexpGroupNumbering(r)
			ruleJSONExprsAllPaths(r)
			rulePatternUnnamedExact(r)
			ruleIdentPredicates(r) // which field names unpack/regexp accept as labels
			ruleLPPipe(r)          // a parser stage after unpack sees the unpacked line
			rulePatternLiteralAnchored(r)
			ruleReadersDecodeRunes(r)
			ruleKeyToLabel(r)
			ruleNoUnsafeStrings(r, []string{enginePkg, dockerlogPkg})
			ruleLPOffload(r) // a filter after unpack is evaluated on the unpacked line
			ruleMO(r, 10, "jsonexpr")
			ruleResetPerRecord(r)
			ruleExtractorsWriteOnly(r)
			ruleUnpackEntryNoSentinel(r)
		},
	})
}
