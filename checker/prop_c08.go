package main

func init() {
	register(&PropSpec{
		ID:          "C08",
		Technique:   "map-order taint with sort sanitisation on the stream key, injectivity rule on its write sequence, provenance pairing of stream key and labels, finite-case table of the limit guard, dominance of the per-stream sort",
		Explanation: "Decides the structural clauses behind 'streams are a partition, ordered, and honour the limit' for all inputs: the stream key is an order-independent, injective encoding of exactly the entry's label set; every entry is appended to the stream of its key and stored back; stream labels never alias reused state; every stream is sorted by timestamp before any successful return; the limit guard's truth table and the once-per-entry counter.",
		Decided: []string{
			"PV-ORDER: the label set is cleared per record; PV-FRESH: AsMap stores every label under its own name; PV-API: Value.Str only for string-typed values",
			"FE-ORD: once the entry counter is incremented every path returns true without another iteration (the limit counts emitted entries)",
			"MO/PV-INJKEY: LabelSet.String sorts maps.Keys before writing, writes every label, quotes values",
			"PV-PAIR/PV-ONCE/PV-ROLE: groupEntries keys by e.set.String(), labels from the same e.set on the miss edge, LogEntry{T: e.ts, V: e.line} appended and the stream stored back on every iteration",
			"PV-FRESH: AsMap/AsLokiAPI return a new map",
			"PV-ORDER: every success return is dominated by the loop sorting each stream's Values with cmp.Compare(a.T, b.T)",
			"FE-ORD/PV-ONCE: stop iff limit > 0 && entries >= limit; entries++ exactly once per emitted entry; limit plumbing from EvalParams",
			"PV-ALIAS (no in-place rewrite of label values: they may be the container's shared resource attributes); the merge iterator rules of C04 (limit keeps the first records in time order)",
			"the daemon stream read API (no record lost before the limit applies); LP-OFFLOAD scan (filters after a line-rewriting stage stay in the engine)",
			"the distinct rule (key = (label, value)); drop/keep delete exactly the selected labels",
			"PV-ROLE label_format rename: Get/Set/Delete of one pair happen in one loop iteration",
			"PV-ROLE drop/keep value matchers are built in the label flavour; LP-ERRPATH for every stage that flags __error__",
			"LP-PIPE entryIterator.Next: nothing but the filters' verdicts removes a record",
			"PV-API JSON integers are not converted through float64; Docker labels are stored under KeyToLabel(key); no unsafe.String",
			"PV-FRESH JSON path stack per line; FE-BOOL IsInstant",
			"LP-DROP `or` operands see the same line; ERR-LOOP the logfmt/json scans run to the end of the line (an entry lands in the stream of all its labels)",
		},
		NotDecided: []string{"'in time order' across streams depends on the storage delivering records in time order (C04)", "count equality with the number of matches is C01"},
		Rules: func(r *Run) {
			ruleSetClearedPerRecord(r)
			ruleValueStrGuarded(r)
			ruleMO(r, 10, "LabelSet", "groupEntries", "Engine).Eval")
			ruleLabelSetString(r)
			ruleGroupEntries(r)
			ruleLimit(r)
			ruleMergeIter(r)                                                 // limit keeps the first records in time order: the merge that feeds the pipeline yields them in time order
			ruleNoInPlaceValueMutation(r, []string{enginePkg, metricPkg}, 2) // a stream is the set of records with one label set: a label rewritten in place changes the labels of later records
			ruleDaemonLog(r)                                                 // no record is lost before the limit is applied: the stream is read through io.ReadFull / io.CopyN
			ruleLPOffload(r)                                                 // line filters after a stage that rewrites the line are not evaluated by the storage on the old line
			ruleDistinct(r)
			ruleDropKeep(r)                                                                                                                                                                           // the labels a record keeps decide its stream: drop/keep delete exactly the selected labels
			ruleLabelFormatDirection(r)                                                                                                                                                               // a renamed label stays: the source is deleted in the iteration that renamed it
			ruleErrorPathKeepsLine(r, []string{"DurationLabelFilter", "BytesLabelFilter", "NumberLabelFilter", "IPLabelFilter", "JSONExtractor", "LogfmtExtractor", "UnpackExtractor", "LineFormat"}) // min(L, N) entries: a stage that fails on a line flags it and keeps it
			ruleDropKeepMatchers(r)
			ruleLPPipe(r)
			ruleJSONIntegersExact(r)
			ruleSanitiserSites(r) // the selector and the records name a container label the same way
			ruleNoUnsafeStrings(r, []string{enginePkg, dockerlogPkg})
			ruleJSONPathStateFresh(r)
			ruleIsInstant(r)
			ruleLPDrop(r)          // `a or b`: the right side sees the line the matcher was given, so a kept entry keeps its line
			ruleExtractorErrors(r) // a logfmt scan runs to the end of the line: every requested key is looked for
		},
	})
}
