package main

import (
	"go/constant"
	"strings"

	"golang.org/x/tools/go/ssa"
)

// ruleGrouperSelection: which grouper a range/vector aggregation uses.
func ruleGrouperSelection(r *Run) {
	p := r.P
	for _, s := range []struct {
		fn       string
		noClause string // expected grouper without a grouping clause
		claim    string
	}{
		{"RangeAggregation", "identity", "a range aggregation groups by its own by/without clause whenever one is written (even an empty one) and keeps every label otherwise"},
		{"VectorAggregation", "all-in-one", "a vector aggregation groups by its own by/without clause whenever one is written (even an empty one); without a clause all series form one group with an empty label set"},
	} {
		fn := p.Func(metricPkg, s.fn)
		o := r.Ob("CH-SUM", "logqlmetric."+s.fn+" grouper", s.claim)
		if fn == nil {
			o.Fail("-", "function not found")
			continue
		}
		// atoms: expr.Grouping != nil, g.Without
		var gNonNil *ssa.BinOp
		var gTrueWhenNonNil bool
		var withoutLoads []ssa.Value
		allInstrs(fn, func(in ssa.Instruction) {
			switch x := in.(type) {
			case *ssa.BinOp:
				if v, nn, ok := nilCheck(x); ok {
					if f, _, ok := loadOfField(v); ok && f == "Grouping" {
						gNonNil, gTrueWhenNonNil = x, nn
					}
				}
			case *ssa.UnOp:
				if f, _, ok := loadOfField(x); ok && f == "Without" {
					withoutLoads = append(withoutLoads, x)
				}
			}
		})
		if gNonNil == nil || len(withoutLoads) == 0 {
			o.Undecide(r.pos(fn.Pos()), "Grouping != nil / Without tests not found")
			continue
		}
		classify := func(v ssa.Value) string {
			d := describe(v, 0)
			switch {
			case strings.Contains(d, "AggregatedLabels).Without"):
				return "Without"
			case strings.Contains(d, "AggregatedLabels).By"):
				return "By"
			}
			// package-level grouper variables: summarise the function they hold
			if u, ok := v.(*ssa.UnOp); ok {
				if g, ok := u.X.(*ssa.Global); ok {
					return grouperSummary(p, g)
				}
			}
			return "?" + d
		}
		bad := false
		for _, c := range []struct {
			has, without bool
			want        string
		}{{false, false, s.noClause}, {true, false, "By"}, {true, true, "Without"}} {
			assume := map[ssa.Value]constant.Value{gNonNil: constant.MakeBool(c.has == gTrueWhenNonNil)}
			for _, wl := range withoutLoads {
				assume[wl] = constant.MakeBool(c.without)
			}
			w := &feWalker{Fn: fn, Assume: assume}
			got := map[string]bool{}
			labelsOK := true
			for _, e := range w.Run() {
				if isErr, known := endReturnsError(e); known && isErr {
					continue
				}
				for _, st := range e.State.stores {
					n, _, ok := fieldNameOf(st.Store.Addr)
					if !ok {
						continue
					}
					if n == "grouper" {
						got[classify(st.Val.V)] = true
					}
					if n == "groupLabels" && c.has {
						// must be g.Labels
						if f, _, ok := loadOfField(st.Val.V); !ok || f != "Labels" {
							labelsOK = false
						}
					}
				}
			}
			g := joinSet(got)
			if g != c.want {
				bad = true
				o.Fail(r.pos(fn.Pos()), "with grouping clause=%v without=%v the grouper is %q, expected %q", c.has, c.without, g, c.want)
			}
			if !labelsOK {
				bad = true
				o.Fail(r.pos(fn.Pos()), "the grouping labels are not the clause's label list")
			}
		}
		if !bad {
			o.OK("no clause -> %s; by -> AggregatedLabels.By; without -> AggregatedLabels.Without; labels = g.Labels", s.noClause).At(r.pos(fn.Pos()))
		}
	}
	// newSampleIterator: by/without role
	ns := p.Func(enginePkg, "newSampleIterator")
	o := r.Ob("PV-ROLE", "logqlengine.newSampleIterator grouping", "a range aggregation's `without` labels go to the without-set and `by` labels to the by-set of the sampled label sets")
	if ns == nil {
		o.Fail("-", "function not found")
	} else {
		var withoutLoads []ssa.Value
		var gNonNil *ssa.BinOp
		var gT bool
		allInstrs(ns, func(in ssa.Instruction) {
			switch x := in.(type) {
			case *ssa.UnOp:
				if f, _, ok := loadOfField(x); ok && f == "Without" {
					withoutLoads = append(withoutLoads, x)
				}
			case *ssa.BinOp:
				if v, nn, ok := nilCheck(x); ok {
					if f, _, ok := loadOfField(v); ok && f == "Grouping" {
						gNonNil, gT = x, nn
					}
				}
			}
		})
		if gNonNil == nil || len(withoutLoads) == 0 {
			o.Undecide(r.pos(ns.Pos()), "Grouping/Without tests not found")
		} else {
			bad := false
			for _, wo := range []bool{false, true} {
				assume := map[ssa.Value]constant.Value{gNonNil: constant.MakeBool(gT)}
				for _, wl := range withoutLoads {
					assume[wl] = constant.MakeBool(wo)
				}
				w := &feWalker{Fn: ns, Assume: assume}
				for _, e := range w.Run() {
					if isErr, known := endReturnsError(e); known && isErr {
						continue
					}
					// buildSet(nil, X...) stored to fields by / without: X must be g.Labels for the chosen side and nil for the other
					for _, st := range e.State.stores {
						n, _, ok := fieldNameOf(st.Store.Addr)
						if !ok || (n != "by" && n != "without") {
							continue
						}
						c, ok := st.Val.V.(*ssa.Call)
						if !ok || len(c.Call.Args) < 2 {
							continue
						}
						arg := c.Call.Args[1]
						// resolve phi on this path
						av := w.evalVal(e.State, arg)
						src := av.V
						isLabels := false
						if f, _, ok := loadOfField(src); ok && f == "Labels" {
							isLabels = true
						}
						want := (n == "without") == wo
						if isLabels != want {
							bad = true
							o.Fail(r.pos(st.Store.Pos()), "with Without=%v the %s-set is built from %s", wo, n, describe(src, 0))
						}
					}
				}
			}
			if !bad {
				o.OK("Without -> without-set, otherwise by-set").At(r.pos(ns.Pos()))
			}
		}
	}
}

// grouperSummary summarises a package-level grouper variable's function:
// identity (returns its first parameter) or all-in-one (returns al.By() with no labels).
func grouperSummary(p *Program, g *ssa.Global) string {
	// find the init store
	var fn *ssa.Function
	for _, f := range p.SSAPkgs[g.Pkg.Pkg.Path()].Members {
		if init, ok := f.(*ssa.Function); ok && init.Name() == "init" {
			allInstrs(init, func(in ssa.Instruction) {
				if st, ok := in.(*ssa.Store); ok && st.Addr == ssa.Value(g) {
					fn = funcOfValue(st.Val)
				}
			})
		}
	}
	if fn == nil || len(fn.Params) < 1 {
		return "?global:" + g.Name()
	}
	rets := returnsOf(fn)
	if len(rets) != 1 {
		return "?global:" + g.Name()
	}
	rv := rets[0].Results[0]
	if rv == ssa.Value(fn.Params[0]) {
		return "identity"
	}
	if c, ok := rv.(*ssa.Call); ok && invokeIs(c, "By") && c.Call.Value == ssa.Value(fn.Params[0]) {
		// By() with an empty variadic list
		if len(c.Call.Args) == 1 && isNilConst(c.Call.Args[0]) {
			return "all-in-one"
		}
	}
	return "?global:" + g.Name()
}
