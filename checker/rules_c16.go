package main

import (
	"fmt"
	"go/constant"
	"go/token"
	"go/types"
	"math"
	"strings"
	"time"

	"golang.org/x/tools/go/ssa"
)

// ruleErrChecked: the error result of every fallible call in fn is nil-tested
// (or returned) – a stale variable must not stand in for it.
func ruleErrChecked(r *Run, fn *ssa.Function) {
	o := r.Ob("ERR-CHECKED", shortFuncName(fn), "the error returned by every call is itself tested or returned (not another, stale error variable)")
	if fn == nil {
		o.Fail("-", "function not found")
		return
	}
	n := 0
	bad := false
	for _, c := range callsIn(fn) {
		call, ok := c.(*ssa.Call)
		if !ok {
			continue
		}
		res := call.Call.Signature().Results()
		if res.Len() == 0 || !isErrorType(res.At(res.Len()-1).Type()) {
			continue
		}
		var ev ssa.Value
		if res.Len() == 1 {
			ev = call
		} else {
			for _, ref := range *call.Referrers() {
				if e, ok := ref.(*ssa.Extract); ok && e.Index == res.Len()-1 {
					ev = e
				}
			}
		}
		n++
		if ev == nil {
			// error result unused entirely
			if _, isClose := methodCallNamed(call, "Close"); isClose {
				continue
			}
			bad = true
			o.Fail(r.pos(call.Pos()), "the error of %s is ignored", calleeName(call))
			continue
		}
		tested := false
		var visit func(v ssa.Value, depth int)
		visit = func(v ssa.Value, depth int) {
			if depth > 4 || v.Referrers() == nil {
				return
			}
			for _, ref := range *v.Referrers() {
				switch x := ref.(type) {
				case *ssa.BinOp:
					if _, _, ok := nilCheck(x); ok {
						tested = true
					}
				case *ssa.Return:
					tested = true
				case *ssa.Phi:
					visit(x, depth+1)
				case *ssa.Store:
					// stored to a named result / local cell: follow loads of the cell
					if al, ok := x.Addr.(*ssa.Alloc); ok {
						for _, r2 := range *al.Referrers() {
							if u, ok := r2.(*ssa.UnOp); ok {
								visit(u, depth+1)
							}
						}
					}
				case *ssa.MakeInterface, *ssa.ChangeInterface:
					visit(x.(ssa.Value), depth+1)
				}
			}
		}
		visit(ev, 0)
		if !tested {
			bad = true
			o.Fail(r.pos(call.Pos()), "the error of %s is never tested for nil nor returned", calleeName(call))
		}
	}
	if !bad {
		o.OK("%d fallible call(s), each error tested or returned", n).At(r.pos(fn.Pos()))
		o.Trivial = n == 0
	}
}

func ruleTimeParams(r *Run) {
	p := r.P
	cm := modPath + "/" + cmdPkg
	ptr := p.Func(cmdPkg, "parseTimeRange")
	pts := p.Func(cmdPkg, "parseTimestamp")
	pst := p.Func(cmdPkg, "parseStep")
	pdu := p.Func(cmdPkg, "parseDuration")
	dst := p.Func(cmdPkg, "defaultStep")
	qc := p.Func(cmdPkg, "queryCmd")
	anchor := r.Ob("ANCHOR", "main time/step parsing", "anchor functions resolve")
	anchor.Trivial = true
	// the command's run function: whatever is stored into the command's RunE field (a function
	// literal, or a bound method of a runner struct)
	var runE *ssa.Function
	if qc != nil {
		for _, g := range funcGroup(qc) {
			allInstrs(g, func(in ssa.Instruction) {
				st, ok := in.(*ssa.Store)
				if !ok {
					return
				}
				if f, _, ok := fieldNameOf(st.Addr); !ok || f != "RunE" {
					return
				}
				switch x := stripTypeOnly(st.Val).(type) {
				case *ssa.MakeClosure:
					w, _ := x.Fn.(*ssa.Function)
					if w != nil && strings.HasSuffix(w.Name(), "$bound") && w.Blocks != nil {
						for _, c := range callsIn(w) {
							if m := staticCallee(c); m != nil && m.Blocks != nil {
								runE = m
							}
						}
					} else if w != nil {
						runE = w
					}
				case *ssa.Function:
					runE = x
				}
			})
		}
		if runE == nil && len(qc.AnonFuncs) > 0 {
			runE = qc.AnonFuncs[0]
		}
	}
	// the default step may be computed in parseStep itself (helper inlined)
	defStart, defEnd := 0, 1
	if dst == nil && pst != nil && len(pst.Params) == 3 {
		for _, c := range callsIn(pst) {
			if callIs(c, "math", "Floor") {
				dst, defStart, defEnd = pst, 1, 2
			}
		}
	}
	if ptr == nil || pts == nil || pst == nil || pdu == nil || dst == nil || qc == nil || runE == nil {
		anchor.Fail("-", "parseTimeRange/parseTimestamp/parseStep/parseDuration/defaultStep/queryCmd not all found")
		return
	}
	anchor.OK("resolved").At(r.pos(ptr.Pos()))

	// ---- errors
	ruleErrProp(r, ptr, errPropOpts{})
	ruleErrProp(r, pst, errPropOpts{})
	ruleErrProp(r, runE, errPropOpts{})
	ruleErrChecked(r, runE)
	ruleErrChecked(r, ptr)
	ruleErrChecked(r, pst)
	// try-next parsers: the last parser's error is what is returned
	for _, fn := range []*ssa.Function{pts, pdu} {
		o := r.Ob("ERR-PROP", shortFuncName(fn)+" fallbacks", "a value no spelling accepts is rejected: when every parser fails the last parser's error is returned, never a default")
		bad := false
		w := &feWalker{Fn: fn, MaxPath: 5000}
		for _, e := range w.Run() {
			if e.Cut || len(e.Results) != 2 {
				continue
			}
			// count failing parsers on the path
			var failed []ssa.Value
			allFailed := true
			for _, c := range e.State.calls {
				call, ok := c.Call.(*ssa.Call)
				if !ok {
					continue
				}
				res := call.Call.Signature().Results()
				if res.Len() != 2 || !isErrorType(res.At(1).Type()) {
					continue
				}
				var ev ssa.Value
				for _, ref := range *call.Referrers() {
					if ex, ok := ref.(*ssa.Extract); ok && ex.Index == 1 {
						ev = ex
					}
				}
				st := "unknown"
				for _, f := range e.State.free {
					if x, nn, ok := nilCheck(f.Cond); ok && x == ev {
						if nn == f.Truth {
							st = "failed"
						} else {
							st = "ok"
						}
					}
				}
				if st == "failed" {
					failed = append(failed, ev)
				} else {
					allFailed = false
				}
			}
			if len(failed) == 0 {
				continue
			}
			last := e.Results[1].V
			if isNilConst(last) && allFailed {
				bad = true
				o.Fail(r.pos(e.Term.Pos()), "every parser failed on this path but the function returns a nil error")
			}
		}
		if !bad {
			o.OK("no path on which all attempted parsers fail returns nil").At(r.pos(fn.Pos()))
		}
	}

	// ---- step positivity (FE-SIGN)
	os := r.Ob("FE-SIGN", "main.parseStep positivity", "every step handed to the engine is strictly positive: the default is at least one second and an explicit step <= 0 (or non-finite) is rejected")
	{
		bad := false
		// the value returned on success paths
		w := &feWalker{Fn: pst, MaxPath: 5000}
		nSucc := 0
		for _, e := range w.Run() {
			if isErr, known := endReturnsError(e); known && isErr {
				continue
			}
			if len(e.Results) != 2 {
				continue
			}
			nSucc++
			v := e.Results[0].V
			if c, ok := v.(*ssa.Call); ok && callIs(c, cm, "defaultStep") {
				continue
			}
			if dst == pst {
				// inlined default: anything that is not the parsed duration
				if c, idx, ok := extractOf(stripConv(v)); !ok || idx != 0 || !callIs(c, cm, "parseDuration") {
					continue
				}
			}
			// must be guarded: a taken fact v <= 0 == false (or v > 0 == true)
			guarded := false
			for _, f := range e.State.free {
				b, ok := f.Cond.(*ssa.BinOp)
				if !ok {
					continue
				}
				z, isz := constInt(b.Y)
				if !isz || z != 0 || b.X != v {
					continue
				}
				if (b.Op == token.LEQ && !f.Truth) || (b.Op == token.GTR && f.Truth) {
					guarded = true
				}
				if b.Op == token.LSS && !f.Truth {
					// only non-negative: zero still passes
				}
			}
			if !guarded {
				bad = true
				os.Fail(r.pos(e.Term.Pos()), "a parsed step (%s) is returned without a `> 0` test: --step=0 or a negative step reaches the evaluator", describe(v, 0))
			}
		}
		if nSucc == 0 {
			bad = true
			os.Fail(r.pos(pst.Pos()), "no success path")
		}
		// defaultStep >= 1s: the float that is converted to the returned duration has lower bound >= 1
		okMax := false
		{
			nRet, nOK := 0, 0
			for _, gf := range []*ssa.Function{dst} {
				for _, ret := range returnsOf(gf) {
					if dst == pst {
						// inlined default: only the returns that hand out the computed default
						if len(ret.Results) != 2 || !isNilConst(ret.Results[1]) {
							continue
						}
						if c, idx, ok := extractOf(stripConv(ret.Results[0])); ok && idx == 0 && callIs(c, cm, "parseDuration") {
							continue
						}
						if _, isC := constOf(ret.Results[0]); isC {
							continue
						}
					} else if len(ret.Results) != 1 {
						continue
					}
					nRet++
					// time.Duration(seconds) * time.Second, in either operand order
					v := stripConv(ret.Results[0])
					var secs ssa.Value
					if b, ok := v.(*ssa.BinOp); ok && b.Op == token.MUL {
						for _, pair := range [][2]ssa.Value{{b.X, b.Y}, {b.Y, b.X}} {
							if c, ok := constInt(pair[1]); ok && c == int64(time.Second) {
								if cv, ok := pair[0].(*ssa.Convert); ok {
									secs = cv.X
								}
							}
						}
					}
					if secs != nil && floatLowerBound(secs, ret.Block(), 0) >= 1 {
						nOK++
					}
				}
			}
			okMax = nRet > 0 && nRet == nOK
		}
		if !okMax {
			bad = true
			os.Fail(r.pos(dst.Pos()), "the default step is not floored at one second (math.Max(.., 1))")
		}
		// non-finite numbers rejected in parseDuration: IsNaN / IsInf tests dominate the float conversion
		nan, inf := false, false
		for _, c := range callsIn(pdu) {
			if callIs(c, "math", "IsNaN") {
				nan = true
			}
			if callIs(c, "math", "IsInf") {
				inf = true
			}
		}
		if !nan || !inf {
			bad = true
			os.Fail(r.pos(pdu.Pos()), "NaN / Inf are not rejected before the float is converted to a duration (NaN test=%v, Inf test=%v)", nan, inf)
		}
		if !bad {
			os.OK("explicit step returned only under d > 0; default floored at 1s; NaN/Inf rejected").At(r.pos(pst.Pos()))
		}
	}

	// ---- constants
	oc := r.Ob("PV-CONST", "main defaults", "--since defaults to the 6h the flag's help shows; the default step is floor((end-start) seconds / 250) seconds, at least 1s; a plain number of --step is seconds")
	{
		bad := false
		// since default constant in parseTimeRange: the duration that is negated and added to
		// form the default start (x.Add(-since)); its constant leaf is the default
		var sinceConst int64 = -1
		for _, c := range callsIn(ptr) {
			if !callIs(c, "time", "(Time).Add") || len(c.Common().Args) != 2 {
				continue
			}
			neg, ok := c.Common().Args[1].(*ssa.UnOp)
			if !ok || neg.Op != token.SUB {
				continue
			}
			for _, cv := range constLeavesThroughHelpers(neg.X, nil, 0) {
				if cv > sinceConst { // zero values returned beside an error are not the default
					sinceConst = cv
				}
			}
		}
		// the flag default string of the flag variable whose value is handed to parseTimeRange
		// as the `since` argument (4th), wherever that variable is called
		help := ""
		for _, gf := range funcGroup(qc) {
			for _, c := range callsIn(gf) {
				if c.Common().StaticCallee() != ptr || len(c.Common().Args) != 4 {
					continue
				}
				cell := flagCellOf(c.Common().Args[3])
				if cell == nil {
					continue
				}
				for _, st := range storesTo(cell) {
					if k, ok := st.Val.(*ssa.Call); ok && len(k.Call.Args) == 1 {
						if sv, ok := constStr(stripConv(k.Call.Args[0])); ok {
							help = sv
						}
					}
				}
			}
		}
		if help == "" {
			// the flag variable may be a field of a runner struct: the cell registered as "since"
			sinceKey := ""
			keyOf := func(v ssa.Value) string {
				var path []string
				for d := 0; d < 12 && v != nil; d++ {
					switch x := v.(type) {
					case *ssa.MakeInterface:
						v = x.X
					case *ssa.UnOp:
						v = x.X
					case *ssa.FieldAddr:
						if n, _, ok := fieldNameOf(x); ok && n != "Val" {
							path = append([]string{n}, path...)
						}
						v = x.X
					case *ssa.Alloc:
						return "T:" + typeKey(derefType(x.Type())) + "." + strings.Join(path, ".")
					case *ssa.Parameter:
						return "T:" + typeKey(derefType(x.Type())) + "." + strings.Join(path, ".")
					default:
						return ""
					}
				}
				return ""
			}
			for _, g := range funcGroup(qc) {
				for _, c := range callsIn(g) {
					callee := staticCallee(c)
					if callee == nil || !strings.Contains(pkgPathOf(callee), "pflag") || len(c.Common().Args) < 3 {
						continue
					}
					if nm, ok := constStr(c.Common().Args[2]); ok && nm == "since" {
						sinceKey = keyOf(c.Common().Args[1])
					}
				}
			}
			if sinceKey != "" {
				for _, g := range funcGroup(qc) {
					allInstrs(g, func(in ssa.Instruction) {
						st, ok := in.(*ssa.Store)
						if !ok || keyOf(st.Addr) != sinceKey {
							return
						}
						if k, ok := st.Val.(*ssa.Call); ok && len(k.Call.Args) == 1 {
							if sv, ok := constStr(stripConv(k.Call.Args[0])); ok {
								help = sv
							}
						}
					})
				}
			}
		}
		hd, err := time.ParseDuration(help)
		if sinceConst < 0 || err != nil || int64(hd) != sinceConst {
			bad = true
			oc.Fail(r.pos(ptr.Pos()), "the default of --since is %d ns in parseTimeRange but the flag advertises %q", sinceConst, help)
		}
		// defaultStep: /250, Floor, * time.Second
		div, floor, sec := false, false, false
		allInstrs(dst, func(in ssa.Instruction) {
			switch x := in.(type) {
			case *ssa.BinOp:
				if x.Op == token.QUO {
					if cv, ok := constOf(x.Y); ok {
						f, _ := constant.Float64Val(cv)
						if f == 250 {
							div = true
						}
					}
				}
				if x.Op == token.MUL {
					if c, ok := constInt(x.Y); ok && c == int64(time.Second) {
						sec = true
					}
				}
			case *ssa.Call:
				if callIs(x, "math", "Floor") {
					floor = true
				}
			}
		})
		if !div || !floor || !sec {
			bad = true
			oc.Fail(r.pos(dst.Pos()), "defaultStep: /250=%v Floor=%v *time.Second=%v", div, floor, sec)
		}
		// end.Sub(start)
		for _, c := range callsIn(dst) {
			if callIs(c, "time", "(Time).Sub") {
				// defaultStep(start, end): the second parameter minus the first
				if len(dst.Params) <= defEnd || unspill(c.Common().Args[0]) != ssa.Value(dst.Params[defEnd]) || unspill(c.Common().Args[1]) != ssa.Value(dst.Params[defStart]) {
					bad = true
					oc.Fail(r.pos(c.Pos()), "defaultStep measures %s.Sub(%s), expected end.Sub(start)", rootName(c.Common().Args[0]), rootName(c.Common().Args[1]))
				}
			}
		}
		// plain number * time.Second in parseDuration
		mulSec := false
		allInstrs(pdu, func(in ssa.Instruction) {
			if b, ok := in.(*ssa.BinOp); ok && b.Op == token.MUL {
				if cv, ok := constOf(b.Y); ok {
					f, _ := constant.Float64Val(cv)
					if f == float64(time.Second) {
						mulSec = true
					}
				}
			}
		})
		// ... and the scaling happens in float64, before the conversion to an integer duration
		// (time.Duration(f) * time.Second truncates 0.5 to 0 and 1.5 to 1s)
		allInstrs(pdu, func(in ssa.Instruction) {
			cv, ok := in.(*ssa.Convert)
			if !ok || typeKey(cv.Type()) != "Duration" {
				return
			}
			if bt, ok := cv.X.Type().Underlying().(*types.Basic); !ok || bt.Info()&types.IsFloat == 0 {
				return
			}
			// the float that is converted must already be scaled: a product with float64(time.Second)
			scaled := false
			for _, lv := range valueLeaves(cv.X) {
				if b, ok := lv.(*ssa.BinOp); ok && b.Op == token.MUL {
					for _, operand := range []ssa.Value{b.X, b.Y} {
						if c, ok := constOf(operand); ok {
							if f, _ := constant.Float64Val(c); f == float64(time.Second) {
								scaled = true
							}
						}
					}
				}
			}
			if !scaled {
				bad = true
				oc.Fail(r.pos(cv.Pos()), "a float number of seconds is converted to an integer duration before it is scaled by time.Second: fractions of a second are lost (0.5 -> 0)")
			}
		})
		if !mulSec {
			bad = true
			oc.Fail(r.pos(pdu.Pos()), "a plain number is not multiplied by time.Second")
		}
		if !bad {
			oc.OK("since default = %q; step = max(1, floor(end.Sub(start).Seconds()/250)) * time.Second; number * time.Second", help).At(r.pos(ptr.Pos()))
		}
	}

	// ---- defaulting roles in parseTimeRange
	od := r.Ob("PV-ROLE", "main.parseTimeRange defaults", "--end defaults to now; --start defaults to min(end, now) - since")
	{
		var calls []*ssa.Call
		for _, c := range callsIn(ptr) {
			if call, ok := c.(*ssa.Call); ok && callIs(call, cm, "parseTimestamp") {
				calls = append(calls, call)
			}
		}
		now := ptr.Params[0]
		if len(calls) != 2 {
			od.Fail(r.pos(ptr.Pos()), "expected two parseTimestamp calls (end, start), found %d", len(calls))
		} else {
			bad := false
			endCall, startCall := calls[0], calls[1]
			if !instrDominates(endCall, startCall) {
				endCall, startCall = startCall, endCall
			}
			if endCall.Call.Args[1] != ssa.Value(now) {
				bad = true
				od.Fail(r.pos(endCall.Pos()), "the default of --end is %s, not now", describe(endCall.Call.Args[1], 0))
			}
			// parseTimeRange(now, startParam, endParam, sinceParam): the end call reads endParam, the start call startParam
			derivesFrom := func(v ssa.Value, prm *ssa.Parameter) bool {
				v = unspill(v)
				if c, ok := v.(*ssa.Call); ok && len(c.Call.Args) > 0 {
					v = unspill(c.Call.Args[0])
				}
				return v == ssa.Value(prm)
			}
			if len(ptr.Params) != 4 || !derivesFrom(endCall.Call.Args[0], ptr.Params[2]) || !derivesFrom(startCall.Call.Args[0], ptr.Params[1]) {
				bad = true
				od.Fail(r.pos(endCall.Pos()), "the end/start parameters are parsed in the wrong roles (%s / %s)", describe(endCall.Call.Args[0], 0), describe(startCall.Call.Args[0], 0))
			}
			// start default: X.Add(-since), X = now when end.After(now), else end - decided on paths
			var endVal ssa.Value
			for _, ref := range *endCall.Referrers() {
				if e, ok := ref.(*ssa.Extract); ok && e.Index == 0 {
					endVal = e
				}
			}
			var after *ssa.Call
			for _, c := range callsIn(ptr) {
				if call, ok := c.(*ssa.Call); ok && callIs(call, "time", "(Time).After") {
					a0, a1 := unspill(call.Call.Args[0]), unspill(call.Call.Args[1])
					if a0 == endVal && a1 == ssa.Value(now) {
						after = call
					}
				}
			}
			if after == nil {
				bad = true
				od.Fail(r.pos(startCall.Pos()), "the start default is not clamped to now: end is never compared with now (--end in the future would move --start into the future)")
			} else {
				for _, truth := range []bool{false, true} {
					w := &feWalker{Fn: ptr, Assume: map[ssa.Value]constant.Value{after: constant.MakeBool(truth)}}
					seen := false
					for _, e := range w.Run() {
						for _, c := range e.State.calls {
							if c.Call != ssa.CallInstruction(startCall) {
								continue
							}
							seen = true
							add, ok := unspill(c.Args[1].V).(*ssa.Call)
							if !ok || !callIs(add, "time", "(Time).Add") {
								bad = true
								od.Fail(r.pos(startCall.Pos()), "with end.After(now)=%v the default of --start is %s, not X.Add(-since)", truth, describe(c.Args[1].V, 1))
								continue
							}
							if u, ok := add.Call.Args[1].(*ssa.UnOp); !ok || u.Op != token.SUB {
								bad = true
								od.Fail(r.pos(add.Pos()), "the default of --start adds %s instead of subtracting since", describe(add.Call.Args[1], 0))
							}
							base := unspill(w.evalVal(e.State, add.Call.Args[0]).V)
							want := endVal
							if truth {
								want = ssa.Value(now)
							}
							if base != want {
								bad = true
								od.Fail(r.pos(add.Pos()), "with end.After(now)=%v the start default is based on %s", truth, describe(base, 0))
							}
						}
					}
					if !seen {
						bad = true
						od.Fail(r.pos(startCall.Pos()), "no path parses --start with end.After(now)=%v", truth)
					}
				}
			}
			if !bad {
				od.OK("end default now; start default (end.After(now) ? now : end).Add(-since)").At(r.pos(ptr.Pos()))
			}
		}
	}

	// ---- parseTimestamp spellings
	ot := r.Ob("FE-INT", "main.parseTimestamp spellings", "unix seconds (<= 10 digits) -> time.Unix(n, 0); longer integers are nanoseconds -> time.Unix(0, n); fractional seconds are rounded to the millisecond, not truncated; otherwise RFC3339Nano; empty -> the default")
	{
		bad := false
		// digit threshold
		thr := int64(-1)
		var thrCond *ssa.BinOp
		thrNeg := false
		allInstrs(pts, func(in ssa.Instruction) {
			if b, ok := in.(*ssa.BinOp); ok {
				if c, ok := b.X.(*ssa.Call); ok {
					if bi, ok := c.Call.Value.(*ssa.Builtin); ok && bi.Name() == "len" {
						if k, ok := constInt(b.Y); ok {
							switch b.Op {
							case token.LEQ:
								thr, thrCond, thrNeg = k, b, false
							case token.LSS:
								thr, thrCond, thrNeg = k-1, b, false
							case token.GTR: // the long (nanoseconds) spelling is tested first
								thr, thrCond, thrNeg = k, b, true
							case token.GEQ:
								thr, thrCond, thrNeg = k-1, b, true
							}
						}
					}
				}
			}
		})
		if thrCond == nil || thr < 10 || thr >= 18 {
			bad = true
			ot.Fail(r.pos(pts.Pos()), "the seconds/nanoseconds digit threshold is %d; it must satisfy 10 <= T < 18", thr)
		} else {
			for _, short := range []bool{true, false} {
				w := &feWalker{Fn: pts, Assume: map[ssa.Value]constant.Value{thrCond: constant.MakeBool(short != thrNeg)}}
				for _, e := range w.Run() {
					if len(e.Results) != 2 {
						continue
					}
					c, ok := e.Results[0].V.(*ssa.Call)
					if !ok || !callIs(c, "time", "Unix") {
						continue
					}
					// only the integer branch: args are the ParseInt result and a zero
					var intArg, zeroArg ssa.Value
					if short {
						intArg, zeroArg = c.Call.Args[0], c.Call.Args[1]
					} else {
						intArg, zeroArg = c.Call.Args[1], c.Call.Args[0]
					}
					if pc, idx, ok := extractOf(intArg); ok && idx == 0 && callIs(pc, "strconv", "ParseInt") {
						if z, ok := constInt(zeroArg); !ok || z != 0 {
							bad = true
							ot.Fail(r.pos(c.Pos()), "short=%v: time.Unix(%s, %s)", short, describe(c.Call.Args[0], 0), describe(c.Call.Args[1], 0))
						}
					} else if _, _, ok := extractOf(zeroArg); ok {
						bad = true
						ot.Fail(r.pos(c.Pos()), "a %s integer is passed as %s", map[bool]string{true: "<= threshold digit (seconds)", false: "long (nanoseconds)"}[short], map[bool]string{true: "nanoseconds", false: "seconds"}[short])
					}
				}
			}
		}
		// fractional branch rounds: every nanosecond argument of time.Unix that derives from
		// math.Modf's fraction passes through math.Round on the way
		round, unrounded := false, false
		for _, gf := range funcGroup(pts) {
			for _, c := range callsIn(gf) {
				if !callIs(c, "time", "Unix") || len(c.Common().Args) != 2 {
					continue
				}
				var visit func(v ssa.Value, rounded bool, depth int, seen map[ssa.Value]bool)
				visit = func(v ssa.Value, rounded bool, depth int, seen map[ssa.Value]bool) {
					if v == nil || depth > 16 || seen[v] {
						return
					}
					seen[v] = true
					switch x := v.(type) {
					case *ssa.Convert:
						visit(x.X, rounded, depth+1, seen)
					case *ssa.ChangeType:
						visit(x.X, rounded, depth+1, seen)
					case *ssa.BinOp:
						visit(x.X, rounded, depth+1, seen)
						visit(x.Y, rounded, depth+1, seen)
					case *ssa.Phi:
						for _, e := range x.Edges {
							visit(e, rounded, depth+1, seen)
						}
					case *ssa.UnOp:
						if al, ok := x.X.(*ssa.Alloc); ok && x.Op == token.MUL {
							for _, st := range storesTo(al) {
								visit(st.Val, rounded, depth+1, seen)
							}
						}
					case *ssa.Extract:
						if mc, ok := x.Tuple.(*ssa.Call); ok && callIs(mc, "math", "Modf") && x.Index == 1 {
							if rounded {
								round = true
							} else {
								unrounded = true
							}
						}
					case *ssa.Call:
						if callIs(x, "math", "Round") {
							visit(x.Call.Args[0], true, depth+1, seen)
						}
					}
				}
				visit(c.Common().Args[1], false, 0, map[ssa.Value]bool{})
			}
		}
		if !round || unrounded {
			bad = true
			ot.Fail(r.pos(pts.Pos()), "the fractional part is not rounded (math.Round): 1700000000.123 would denote an instant 1ms earlier than its nanosecond spelling")
		}
		// RFC3339Nano fallback, empty -> def
		rfc := false
		for _, c := range callsIn(pts) {
			if callIs(c, "time", "Parse") {
				if l, ok := constStr(c.Common().Args[0]); ok && l == time.RFC3339Nano {
					rfc = true
				}
			}
		}
		if !rfc {
			bad = true
			ot.Fail(r.pos(pts.Pos()), "the textual fallback is not time.RFC3339Nano")
		}
		// a value that does not fit a numeric syntax falls through to the next one: the only
		// error parseTimestamp reports is that of the last resort (time.Parse)
		for _, ret := range returnsOf(pts) {
			if len(ret.Results) != 2 {
				continue
			}
			for _, lv := range phiLeaves(ret.Results[1]) {
				if isNilConst(lv) {
					continue
				}
				if c, idx, ok := extractOf(lv); ok && idx == 1 && callIs(c, "time", "Parse") {
					continue
				}
				bad = true
				ot.Fail(r.pos(ret.Pos()), "parseTimestamp fails with %s: a spelling that does not fit one numeric syntax is rejected instead of being tried as the next one (RFC3339Nano timestamps contain '.' and letters)", describe(lv, 0))
			}
		}
		emptyOK := false
		for _, ret := range returnsOf(pts) {
			if ret.Results[0] == ssa.Value(pts.Params[1]) && isNilConst(ret.Results[1]) {
				for _, f := range factsAt(ret.Block()) {
					if b, ok := f.Cond.(*ssa.BinOp); ok && b.Op == token.EQL && f.Truth {
						if s, ok := constStr(b.Y); ok && s == "" {
							emptyOK = true
						}
					}
				}
			}
		}
		if !emptyOK {
			bad = true
			ot.Fail(r.pos(pts.Pos()), "the default is not returned exactly for the empty value")
		}
		if !bad {
			ot.OK("threshold %d digits; Unix(n,0) / Unix(0,n); rounded fraction; RFC3339Nano; \"\" -> default", thr).At(r.pos(pts.Pos()))
		}
	}

	// ---- RunE wiring
	ow := r.Ob("PV-ROLE", "main query RunE wiring", "the evaluator receives Start/End from the parsed range in this order, the parsed step and the limit flag; the step is parsed with (start, end)")
	{
		bad := false
		var tr, ps, ev *ssa.Call
		runGrp := funcGroup(runE)
		for _, g := range runGrp {
			for _, c := range callsIn(g) {
				call, ok := c.(*ssa.Call)
				if !ok {
					continue
				}
				switch {
				case callIs(call, cm, "parseTimeRange"):
					tr = call
				case callIs(call, cm, "parseStep"):
					ps = call
				case callIs(call, modPath+"/"+enginePkg, "(*Engine).Eval"):
					ev = call
				}
			}
		}
		// flags are identified by the name they are registered under (FlagSet.Var(&x, "name", ..)),
		// not by the name of the variable or field that holds them
		flagKey := func(v ssa.Value) string {
			var path []string
			for d := 0; d < 12 && v != nil; d++ {
				switch x := v.(type) {
				case *ssa.MakeInterface:
					v = x.X
				case *ssa.ChangeType:
					v = x.X
				case *ssa.UnOp:
					if x.Op != token.MUL {
						return ""
					}
					v = x.X
				case *ssa.FieldAddr:
					if n, _, ok := fieldNameOf(x); ok && n != "Val" {
						path = append([]string{n}, path...)
					}
					v = x.X
				case *ssa.Field:
					if n, _, ok := fieldNameOf(x); ok && n != "Val" {
						path = append([]string{n}, path...)
					}
					v = x.X
				case *ssa.FreeVar:
					b := freeVarBinding(x)
					if b == nil {
						return ""
					}
					v = b
				case *ssa.Alloc:
					if len(path) == 0 {
						return fmt.Sprintf("var:%p", x)
					}
					return "T:" + typeKey(derefType(x.Type())) + "." + strings.Join(path, ".")
				case *ssa.Parameter:
					return "T:" + typeKey(derefType(x.Type())) + "." + strings.Join(path, ".")
				default:
					return ""
				}
			}
			return ""
		}
		flagName := map[string]string{}
		for _, g := range funcGroup(qc) {
			for _, c := range callsIn(g) {
				callee := staticCallee(c)
				if callee == nil || !strings.Contains(pkgPathOf(callee), "pflag") || !strings.Contains(callee.Name(), "Var") {
					continue
				}
				args := c.Common().Args
				// (set, value, name, ...)
				if len(args) < 3 {
					continue
				}
				if nm, ok := constStr(args[2]); ok {
					if k := flagKey(args[1]); k != "" {
						flagName[k] = nm
					}
				}
			}
		}
		isFlag := func(v ssa.Value, want string) bool {
			if k := flagKey(v); k != "" {
				if nm, ok := flagName[k]; ok {
					return nm == want
				}
			}
			return false
		}
		if tr == nil || ps == nil || ev == nil {
			ow.Fail(r.pos(runE.Pos()), "parseTimeRange=%v parseStep=%v Eval=%v", tr != nil, ps != nil, ev != nil)
		} else {
			ex := func(c *ssa.Call, i int) ssa.Value {
				for _, ref := range *c.Referrers() {
					if e, ok := ref.(*ssa.Extract); ok && e.Index == i {
						return e
					}
				}
				return nil
			}
			start, end := ex(tr, 0), ex(tr, 1)
			// parseTimeRange(time.Now(), *start.Val, *end.Val, *since.Val)
			for i, want := range []string{"start", "end", "since"} {
				if !isFlag(tr.Call.Args[i+1], want) {
					bad = true
					ow.Fail(r.pos(tr.Pos()), "argument %d of parseTimeRange is %s, expected the --%s flag", i+1, describe(tr.Call.Args[i+1], 0), want)
				}
			}
			if nc, ok := originValueIn(tr.Call.Args[0], runGrp).(*ssa.Call); !ok || !callIs(nc, "time", "Now") {
				bad = true
				ow.Fail(r.pos(tr.Pos()), "now is %s, not time.Now()", describe(tr.Call.Args[0], 0))
			}
			if ps.Call.Args[1] != start || ps.Call.Args[2] != end || !isFlag(ps.Call.Args[0], "step") {
				bad = true
				ow.Fail(r.pos(ps.Pos()), "parseStep(%s, %s, %s): expected (--step, start, end)", describe(ps.Call.Args[0], 0), describe(ps.Call.Args[1], 0), describe(ps.Call.Args[2], 0))
			}
			evArg := ev.Call.Args[len(ev.Call.Args)-1]
			if hc, idx, isEx := extractOf(unspill(evArg)); isEx {
				// the parameters are built by a helper: its successful return
				if h := staticCallee(hc); h != nil && h.Blocks != nil {
					for _, ret := range returnsOf(h) {
						if idx < len(ret.Results) && len(ret.Results) >= 2 && isNilConst(ret.Results[len(ret.Results)-1]) {
							evArg = ret.Results[idx]
						}
					}
				}
			}
			fs, ok := structLitStores(evArg)
			if !ok {
				bad = true
				ow.Undecide(r.pos(ev.Pos()), "EvalParams is not a literal")
			} else {
				arg0 := func(v ssa.Value) ssa.Value {
					if c, ok := v.(*ssa.Call); ok && len(c.Call.Args) == 1 {
						return c.Call.Args[0]
					}
					return nil
				}
				if originValueIn(arg0(fs["Start"]), runGrp) != start || originValueIn(arg0(fs["End"]), runGrp) != end {
					bad = true
					ow.Fail(r.pos(ev.Pos()), "EvalParams{Start: %s, End: %s}: expected the parsed start and end", describe(fs["Start"], 0), describe(fs["End"], 0))
				}
				if originValueIn(fs["Step"], runGrp) != ex(ps, 0) {
					bad = true
					ow.Fail(r.pos(ev.Pos()), "EvalParams.Step is %s, not the parsed step", describe(fs["Step"], 0))
				}
				if !isFlag(fs["Limit"], "limit") && !isFlag(originValueIn(fs["Limit"], runGrp), "limit") {
					bad = true
					ow.Fail(r.pos(ev.Pos()), "EvalParams.Limit is %s, not the --limit flag", describe(fs["Limit"], 0))
				}
			}
			helperChecked := map[*ssa.Function]bool{}
			// Eval only after both parses succeeded
			for _, c := range []*ssa.Call{tr, ps} {
				errv := ex(c, c.Call.Signature().Results().Len()-1)
				okNil := false
				evAt := ssa.Instruction(ev)
				if c.Parent() != ev.Parent() {
					// the evaluation sits in a helper: where that helper is called
					if l := liftInstr(ev, c.Parent(), runGrp, false); l != nil && l.Parent() == c.Parent() {
						evAt = l
					}
				}
				for _, f := range factsAt(evAt.Block()) {
					if x, nn, ok := nilCheck(f.Cond); ok && x == errv && nn != f.Truth {
						okNil = true
					}
				}
				if !okNil && c.Parent() != ev.Parent() {
					// the parse sits in a helper: the helper hands its failures on (ERR-PROP below) and
					// the evaluation runs only where the helper's own error was found nil
					for _, hc := range callsIn(ev.Parent()) {
						call, isCall := hc.(*ssa.Call)
						if !isCall || staticCallee(call) != c.Parent() {
							continue
						}
						res := call.Call.Signature().Results()
						if res.Len() == 0 || !isErrorType(res.At(res.Len()-1).Type()) {
							continue
						}
						var herr ssa.Value
						if res.Len() == 1 {
							herr = call
						} else {
							herr = ex(call, res.Len()-1)
						}
						for _, f := range factsAt(ev.Block()) {
							if x, nn, ok := nilCheck(f.Cond); ok && x == herr && nn != f.Truth {
								okNil = true
							}
						}
					}
					if okNil && !helperChecked[c.Parent()] {
						helperChecked[c.Parent()] = true
						ruleErrProp(r, c.Parent(), errPropOpts{})
						ruleErrChecked(r, c.Parent())
					}
				}
				if !okNil {
					bad = true
					ow.Fail(r.pos(ev.Pos()), "the query is evaluated on a path where the error of %s is not known to be nil", calleeName(c))
				}
			}
		}
		if !bad {
			ow.OK("parseTimeRange(Now, start, end, since) -> parseStep(step, start, end) -> Eval{Start, End, Step, Limit}").At(r.pos(runE.Pos()))
		}
	}
}

// floatLowerBound computes a sound lower bound of a float64 SSA value as seen from block `at`
// (-Inf when nothing is known). It understands constants, math.Max, math.Floor/Ceil/Round/Trunc of a
// bounded value (integral bounds only), phis (minimum over edges, each refined by the
// branch fact on that edge: `v < c` false gives v >= c, `v >= c` true likewise) and local cells.
func floatLowerBound(v ssa.Value, at *ssa.BasicBlock, depth int) float64 {
	ninf := math.Inf(-1)
	if v == nil || depth > 10 {
		return ninf
	}
	if c, ok := constOf(v); ok && (c.Kind() == constant.Float || c.Kind() == constant.Int) {
		f, _ := constant.Float64Val(c)
		return f
	}
	switch x := v.(type) {
	case *ssa.Call:
		pkg, name := calleePkgName(x)
		if pkg != "math" {
			return ninf
		}
		switch name {
		case "Max":
			a, b := floatLowerBound(x.Call.Args[0], at, depth+1), floatLowerBound(x.Call.Args[1], at, depth+1)
			// NaN operands: math.Max(NaN, c) is NaN; the first operand here is a finite quotient in the
			// code the rule is applied to, and NaN is outside what a bound can express: stay with max.
			return math.Max(a, b)
		case "Floor", "Trunc", "Round":
			lb := floatLowerBound(x.Call.Args[0], at, depth+1)
			if lb == math.Trunc(lb) {
				return lb
			}
			return math.Floor(lb)
		case "Ceil":
			return floatLowerBound(x.Call.Args[0], at, depth+1)
		}
	case *ssa.Phi:
		lb := math.Inf(1)
		for i, e := range x.Edges {
			pred := x.Block().Preds[i]
			b := floatLowerBound(e, pred, depth+1)
			// refine by facts that hold on the edge pred -> phi block and at pred
			facts := factsAt(pred)
			if f, ok := edgeFact(pred, x.Block()); ok {
				facts = append(facts, normFact(f))
			}
			for _, f := range facts {
				bo, ok := f.Cond.(*ssa.BinOp)
				if !ok {
					continue
				}
				if bo.X == e {
					if c, ok := constOf(bo.Y); ok {
						cf, _ := constant.Float64Val(c)
						if (bo.Op == token.LSS && !f.Truth) || (bo.Op == token.GEQ && f.Truth) || (bo.Op == token.GTR && f.Truth) {
							b = math.Max(b, cf)
						}
					}
				}
				if bo.Y == e {
					if c, ok := constOf(bo.X); ok {
						cf, _ := constant.Float64Val(c)
						if (bo.Op == token.GTR && !f.Truth) || (bo.Op == token.LEQ && f.Truth) || (bo.Op == token.LSS && f.Truth) {
							b = math.Max(b, cf)
						}
					}
				}
			}
			lb = math.Min(lb, b)
		}
		return lb
	case *ssa.UnOp:
		if al, ok := x.X.(*ssa.Alloc); ok && x.Op == token.MUL {
			lb := math.Inf(1)
			sts := storesTo(al)
			if len(sts) == 0 {
				return ninf
			}
			for _, st := range sts {
				lb = math.Min(lb, floatLowerBound(st.Val, st.Block(), depth+1))
			}
			return lb
		}
	}
	return ninf
}

// valueLeaves: phi leaves, looking through loads of local cells (all stores).
func valueLeaves(v ssa.Value) []ssa.Value {
	var out []ssa.Value
	seen := map[ssa.Value]bool{}
	var visit func(v ssa.Value, d int)
	visit = func(v ssa.Value, d int) {
		if v == nil || seen[v] || d > 10 {
			return
		}
		seen[v] = true
		switch x := v.(type) {
		case *ssa.Phi:
			for _, e := range x.Edges {
				visit(e, d+1)
			}
			return
		case *ssa.UnOp:
			if al, ok := x.X.(*ssa.Alloc); ok && x.Op == token.MUL {
				for _, st := range storesTo(al) {
					visit(st.Val, d+1)
				}
				return
			}
		}
		out = append(out, v)
	}
	visit(v, 0)
	return out
}

// flagCellOf: the local variable (Alloc in the enclosing function) behind an expression such as
// *flagVar.Val evaluated in a closure: loads and field selections are stripped, a free variable is
// resolved to the cell the closure was created with.
func flagCellOf(v ssa.Value) *ssa.Alloc {
	for d := 0; d < 12 && v != nil; d++ {
		switch x := v.(type) {
		case *ssa.UnOp:
			if x.Op != token.MUL {
				return nil
			}
			v = x.X
		case *ssa.FieldAddr:
			v = x.X
		case *ssa.Field:
			v = x.X
		case *ssa.Alloc:
			return x
		case *ssa.FreeVar:
			fn := x.Parent()
			idx := -1
			for i, fv := range fn.FreeVars {
				if fv == x {
					idx = i
				}
			}
			par := fn.Parent()
			if par == nil || idx < 0 {
				return nil
			}
			var bound ssa.Value
			allInstrs(par, func(in ssa.Instruction) {
				if mc, ok := in.(*ssa.MakeClosure); ok && mc.Fn == ssa.Value(fn) && idx < len(mc.Bindings) {
					bound = mc.Bindings[idx]
				}
			})
			v = bound
		default:
			return nil
		}
	}
	return nil
}

// ruleDefaultOnlyWhenAbsent: the default step stands in for a flag that was not given, and only for
// that: defaultStep is reached only where the optional parameter's Get() reported absence. A value
// that is present but unusable (empty, malformed) goes to the parser and is rejected.
func ruleDefaultOnlyWhenAbsent(r *Run) {
	p := r.P
	pst := p.Func(cmdPkg, "parseStep")
	dst := p.Func(cmdPkg, "defaultStep")
	o := r.Ob("PV-OKGATE", "main.parseStep default", "the default step is used iff --step was not given; a given but empty or malformed value is rejected, not replaced")
	inlined := false
	if pst != nil && dst == nil {
		for _, c := range callsIn(pst) {
			if callIs(c, "math", "Floor") {
				inlined = true
			}
		}
	}
	if pst == nil || (dst == nil && !inlined) {
		o.Fail("-", "parseStep/defaultStep not found")
		return
	}
	n, bad := 0, false
	for _, gf := range funcGroup(pst) {
		for _, c := range callsIn(gf) {
			if inlined {
				// the default computation itself: its range measurement
				if !callIs(c, "time", "(Time).Sub") {
					continue
				}
			} else if staticCallee(c) != dst {
				continue
			}
			n++
			lifted := liftInstr(c, pst, funcGroup(pst), false)
			if lifted == nil {
				lifted = c
			}
			gated := false
			for _, f := range factsAt(lifted.Block()) {
				ex, ok := f.Cond.(*ssa.Extract)
				if !ok || ex.Index != 1 || f.Truth {
					continue
				}
				if call, ok := ex.Tuple.(*ssa.Call); ok && cname(staticCallee(call)) == "Get" && len(call.Call.Args) == 1 && unspill(call.Call.Args[0]) == ssa.Value(pst.Params[0]) {
					gated = true
				}
			}
			if !gated {
				bad = true
				o.Fail(r.pos(c.Pos()), "defaultStep is reached on a path where the step parameter is not known to be absent (Get() ok == false): an explicitly given value can be replaced by the default")
			}
		}
	}
	if n == 0 {
		bad = true
		o.Fail(r.pos(pst.Pos()), "parseStep never uses defaultStep")
	}
	if !bad {
		o.OK("defaultStep only under param.Get() ok == false").At(r.pos(pst.Pos()))
	}
}

// constLeavesThroughHelpers: the integer constants a value can take, looking through phis, local
// cells and same-package helpers (a helper's parameter is replaced by the argument of the call that is
// being expanded: since, err := sinceOrDefault(param, 6*time.Hour)).
func constLeavesThroughHelpers(v ssa.Value, subst map[ssa.Value]ssa.Value, depth int) []int64 {
	var out []int64
	if depth > 3 {
		return nil
	}
	for _, lv := range valueLeaves(v) {
		lv = stripConv(lv)
		if s, ok := subst[lv]; ok {
			out = append(out, constLeavesThroughHelpers(s, nil, depth+1)...)
			continue
		}
		if cv, ok := constInt(lv); ok {
			out = append(out, cv)
			continue
		}
		var call *ssa.Call
		idx := 0
		if c, i, ok := extractOf(lv); ok {
			call, idx = c, i
		} else if c, ok := lv.(*ssa.Call); ok {
			call = c
		}
		if call == nil {
			continue
		}
		h := staticCallee(call)
		if h == nil || h.Blocks == nil || call.Parent() == nil || h.Pkg != call.Parent().Pkg {
			continue
		}
		ns := map[ssa.Value]ssa.Value{}
		for i, prm := range h.Params {
			if i < len(call.Call.Args) {
				ns[prm] = call.Call.Args[i]
			}
		}
		for _, ret := range returnsOf(h) {
			if idx < len(ret.Results) {
				out = append(out, constLeavesThroughHelpers(ret.Results[idx], ns, depth+1)...)
			}
		}
	}
	return out
}
