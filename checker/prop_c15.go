package main

func init() {
	register(&PropSpec{
		ID:          "C15",
		Technique:   "modular-index range argument (exact for an unbounded dividend), dominance/ordering rules on the collect-sort-write pipeline, guard-dominance of option-dependent output, map-order taint into the writer",
		Explanation: "Decides the structural clauses of rendering for all results and option combinations: the palette index is in range for any number of containers and every palette name has a colour; every entry is collected once, the written slice is the collected one sorted by T ascending, with the sort dominating the write loop; one Write per entry of buffer-reset + optional parts + TrimRight(V, CRLF) + \\n; escape sequences only under the colour option; first-wins colour assignment; non-stream results are errors.",
		Decided: []string{
			"FE-MODIDX: names[len(containerColors) % (len(names)+d) + c] in range iff c >= 0 and c + d <= 0; PV-WHOLE: colors filled for every name",
			"PV-WHOLE/PV-ORDER: collection loops complete; SortFunc(entries, cmp.Compare(a.T, b.T)) dominates the loop that writes the same slice",
			"PV-ONCE/PV-CONST: one Write per iteration, buf[:0], TrimRight(V, \"\\r\\n\") + \"\\n\", write error returned",
			"GUARD: colors/resetColor/containerColors only under opts.color; container under opts.container; RFC3339Nano(time.Unix(0, T)) under opts.timestamp",
			"PV-FIRST: colour chosen on first sighting only; ERR-PROP: other result kinds are errors; MO: no map order reaches the writer",
			"the engine keeps every entry of a stream (groupEntries) and frames of any size are read whole (decoder rules): what the renderer prints is every returned record",
			"PV-WHOLE: every successful evaluation returns a typed response (an empty result prints nothing, it does not fail); the merge yields only records the containers produced",
			"PV-CONST renderOptions fields are written by flag parsing only",
			"PV-GO concurrent opens: own slot, joined before use",
			"PV-CONST --limit default is non-positive; line_format result is a copy of the template buffer; PV-CMP comparators",
			"PV-ALIAS no unsafe.String",
			"PV-WHOLE SetAttrs visits every attribute; the limit counts kept entries",
			"a listed container is selected once; openLog context",
			"PV-ROLE openLog since/until spelling; PV-ALIAS label values shared with the container's resource attributes are never written in place",
		},
		NotDecided: []string{"terminal behaviour", "isatty / NO_COLOR detection"},
		Rules: func(r *Run) {
			ruleRender(r)
			ruleMO(r, 10, "cmd/docker-logql", "groupEntries")
			ruleGroupEntries(r) // every returned record reaches the renderer: the engine keeps every entry of a stream
			ruleDaemonLog(r)    // a long line is a record like any other: frames are read whole, whatever their size
			ruleMergeIter(r)    // the merged stream holds the records the containers produced and nothing else
			ruleResultKindSet(r)
			ruleRenderOptionsOnlyFlags(r)
			rulePVGo(r) // every container that was opened is rendered: the goroutines are joined before the merge
			ruleLimitDefaultUnlimited(r)
			ruleTemplateBinding(r) // the rendered message is the text the template produced for that entry
			ruleComparatorsNoSubtraction(r, []string{cmdPkg, enginePkg, metricPkg, dockerlogPkg})
			ruleNoUnsafeStrings(r, []string{enginePkg, dockerlogPkg, cmdPkg})
			ruleSetAttrsWhole(r) // the container name and colour come from labels that must all be there
			ruleLimit(r)
			ruleFetchContainers(r)
			ruleOpenLogContext(r)
			ruleOpenLog(r)                                                   // since/until as the daemon reads them: whole unix seconds, base 10
			ruleNoInPlaceValueMutation(r, []string{enginePkg, metricPkg}, 2) // a container label rewritten in place changes the container an entry is rendered under
		},
	})
}
