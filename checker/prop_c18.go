package main

func init() {
	register(&PropSpec{
		ID:          "C18",
		Technique:   "whole-program map-iteration-order taint analysis on SSA (sources: map ranges, maps.Keys/Values, iteration wrappers; sanitiser: sorts; sinks: hash/builder/writer output, float accumulation, last-writer stores) plus goroutine write-discipline analysis",
		Explanation: "Decides that no hash-map iteration order can reach an order-sensitive effect in first-party code, and that the only concurrent region is schedule-independent and structurally race-free.",
		Decided: []string{
			"MO early exit: no loop over a map stops after acting on (or returning) the current element, except to report an error",
			"MO: every map range / maps.Keys / maps.Values / callback-iteration region has only commutative effects; slices built in map order are sorted before any order-sensitive consumer (grouping-key hash, float accumulation, rendered output)",
			"PV-GO: goroutines write only their own slot; parent reads after Wait",
			"PV-FRESH: compiled templates are never cached across stages/evaluations; MO: a map loop that acts on elements and can stop early; the distinct rule (labels examined in written order)",
			"PV-FRESH JSON path stack; the key encoders are a pure function of the label set (no per-process seed)",
			"label_format applies its renames in written order (a list, not a map); one label set has one stream key",
			"PV-API Docker labels are stored one by one under KeyToLabel(key); render order (C15)",
			"PV-CMP comparators are not differences",
			"no unsafe.String; batch aggregators stateless",
			"PV-WHOLE SetAttrs visits every attribute whatever the map order; fetchContainers lists anew",
			"the daemon stream is read with io.ReadFull / io.CopyN only",
			"PV-VERBATIM series label names are the record's label names (no two labels can collapse into one name, whose order would follow map iteration)",
		},
		NotDecided: []string{"the race detector's dynamic view", "ties in unstable sorts (the property excludes equal timestamps)", "64-bit hash collisions", "map stores inside a region are assumed to hit distinct keys (commutative)"},
		Rules: func(r *Run) {
			ruleMO(r, 10)
			rulePVGo(r)
			ruleNoInPlaceValueMutation(r, []string{enginePkg, metricPkg}, 2)
			ruleTemplatePerStage(r) // a template compiled for one evaluation is never reused by the next (its accessors are bound to the first stage instance)
			ruleDistinct(r)         // the labels of distinct are examined in the order they were written
			ruleJSONPathStateFresh(r)
			ruleKeyEncoders(r) // grouping keys are a pure function of the label set (no per-process seed): key-sorted output is the same in every process
			ruleKeySiblings(r)
			ruleLabelFormatDirection(r) // renames of one stage are applied in the order they were written
			ruleRewriteLoopsWhole(r)
			ruleLabelSetString(r) // one label set has one stream key (names ordered by a total order)
			ruleSanitiserSites(r) // two Docker labels are never merged into one map key by iteration order
			ruleRender(r)
			ruleComparatorsNoSubtraction(r, []string{cmdPkg, enginePkg, metricPkg, dockerlogPkg})
			ruleNoUnsafeStrings(r, []string{enginePkg, dockerlogPkg})
			ruleBatchAggregatorsStateless(r)
			ruleSetAttrsWhole(r)
			ruleFetchContainers(r)
			ruleDaemonLog(r)
			ruleAggLabelNamesVerbatim(r)
		},
	})
}
