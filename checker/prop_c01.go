package main

func init() {
	register(&PropSpec{
		ID:          "C01",
		Explanation: "Decides structural clauses of 'log queries return exactly the matching lines' for all inputs: stage classes (LP-CLASS), rejected lines never flow on (LP-DROP).",
		Decided:     []string{"LP-CLASS", "LP-DROP"},
		NotDecided:  []string{"library semantics of strings.Contains/regexp/netip"},
		Technique:   "SSA typestate/summary analysis of Processor implementations (line/keep contract), enum-table chain extraction",
		Rules: func(r *Run) {
			ruleLPClass(r, nil)
			ruleLPDrop(r)
			ruleCHParseOps(r)
			ruleCHParseSites2(r)
			ruleCHBuilders(r)
			ruleMatcherBodies(r)
			ruleAndOr(r)
			ruleLPOffload(r)
			ruleLPPipe(r)
			ruleGroupEntries(r)
			ruleTypeSwitchExhaustive(r, enginePkg, "", "buildStage", logqlPkg, "PipelineStage", 13, false)
			ruleTypeSwitchExhaustive(r, enginePkg, "", "buildLabelPredicate", logqlPkg, "LabelPredicate", 7, false)
			ruleNilNil(r, []string{enginePkg}, map[string]string{})
			ruleLineFilterBuilder(r)
		},
	})
}
