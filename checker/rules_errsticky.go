package main

import (
	"go/types"
	"sort"

	"golang.org/x/tools/go/ssa"
)

// ruleErrSticky (ERR-STICKY): an iterator that keeps its failure in a field and reports it
// from Err() never loses it again. Consumers in this code base keep calling Next after it
// returned false (rangeAggIterator asks its source again at every step, entryIterator loops on
// Next), so a store into the error cell that may write nil over a recorded failure turns a
// corrupt stream into a silently truncated result.
//
// Instances are discovered, not listed: every first-party type with a method `Err() error`
// whose every return is a load of one field of the receiver. For every store into that field,
// anywhere in the package, one of:
//
//	(a) the stored value is known non-nil where it is stored (a fresh error value, or a value
//	    tested `!= nil` on the way), or
//	(b) the store is reached only while the cell is still nil (a dominating test of the same
//	    field of the same receiver), or
//	(c) it happens on a freshly built value (constructor / composite literal).
func ruleErrSticky(r *Run, rels []string, floor int) {
	p := r.P
	n := 0
	for _, rel := range rels {
		sp := p.SSAPkg(rel)
		if sp == nil {
			continue
		}
		var names []string
		for name := range sp.Members {
			names = append(names, name)
		}
		sort.Strings(names)
		for _, name := range names {
			tm, ok := sp.Members[name].(*ssa.Type)
			if !ok {
				continue
			}
			named, ok := tm.Type().(*types.Named)
			if !ok {
				continue
			}
			if _, isStruct := named.Underlying().(*types.Struct); !isStruct {
				continue
			}
			errFn := p.Method(rel, name, "Err")
			if errFn == nil || errFn.Signature.Recv() == nil || len(errFn.Params) != 1 {
				continue
			}
			if rn := namedOf(derefType(errFn.Signature.Recv().Type())); rn == nil || rn.Obj() != named.Obj() {
				continue // promoted
			}
			res := errFn.Signature.Results()
			if res.Len() != 1 || !isErrorType(res.At(0).Type()) {
				continue
			}
			// the error cell: the one field every return of Err() loads from the receiver
			cell := ""
			single := true
			for _, ret := range returnsOf(errFn) {
				f, base, ok := loadOfField(ret.Results[0])
				if !ok || originValue(base) != ssa.Value(errFn.Params[0]) && base != ssa.Value(errFn.Params[0]) {
					single = false
					break
				}
				if cell != "" && cell != f {
					single = false
				}
				cell = f
			}
			if !single || cell == "" {
				continue
			}
			n++
			o := r.Ob("ERR-STICKY", shortRel(rel)+"."+name+"."+cell, "a failure recorded in the field that Err() reports is never overwritten by a possibly-nil value: asking the iterator again after it failed cannot clear the error")
			bad := false
			nStores := 0
			for _, fn := range p.SrcFuncs() {
				if pkgOfFunc(fn) != sp {
					continue
				}
				allInstrs(fn, func(in ssa.Instruction) {
					st, ok := in.(*ssa.Store)
					if !ok {
						return
					}
					f, base, ok := fieldNameOf(st.Addr)
					if !ok || f != cell {
						return
					}
					if bn := namedOf(derefType(base.Type())); bn == nil || bn.Obj() != named.Obj() {
						return
					}
					nStores++
					// (c) freshly built value
					if _, isAlloc := originValue(base).(*ssa.Alloc); isAlloc {
						return
					}
					if _, isAlloc := base.(*ssa.Alloc); isAlloc {
						return
					}
					// (a) known non-nil
					if valueKnownNonNil(st.Val, st.Block()) {
						return
					}
					// (b) cell known nil here
					for _, fact := range factsAt(st.Block()) {
						x, trueWhenNonNil, ok := nilCheck(fact.Cond)
						if !ok {
							continue
						}
						ff, fb, ok := loadOfField(x)
						if !ok || ff != cell {
							continue
						}
						if originValue(fb) != originValue(base) && fb != base {
							continue
						}
						if fact.Truth != trueWhenNonNil {
							return // cell == nil on every path to the store
						}
					}
					bad = true
					o.Fail(r.pos(st.Pos()), "%s stores %s into %s.%s without knowing that no failure is recorded yet: a second call after a failure replaces the error (by nil when that call ends cleanly)", shortFuncName(fn), describe(st.Val, 0), name, cell)
				})
			}
			if !bad {
				o.OK("%d store(s) into the error cell; each is non-nil, guarded by cell == nil, or on a fresh value", nStores).At(r.pos(errFn.Pos()))
			}
		}
	}
	r.count("err_cells", n)
	if n < floor {
		r.Ob("ANCHOR", "ERR-STICKY instances", "at least the confirmed number of error cells is found").Fail("-", "found %d error cell(s), expected at least %d", n, floor)
	}
}

func derefType(t types.Type) types.Type {
	if pt, ok := t.Underlying().(*types.Pointer); ok {
		return pt.Elem()
	}
	return t
}

// valueKnownNonNil: v is a freshly made error value, or was tested non-nil on every path to blk.
func valueKnownNonNil(v ssa.Value, blk *ssa.BasicBlock) bool {
	switch x := v.(type) {
	case *ssa.MakeInterface:
		switch x.X.(type) {
		case *ssa.Alloc, *ssa.Call, *ssa.MakeClosure:
			return true
		}
		if _, isPtr := x.X.Type().Underlying().(*types.Pointer); !isPtr {
			return true
		}
	case *ssa.Call:
		// constructors of the error packages never return nil
		if callee := staticCallee(x); callee != nil && callee.Pkg != nil {
			switch callee.Pkg.Pkg.Path() + "." + callee.Name() {
			case "errors.New", "fmt.Errorf", "github.com/go-faster/errors.New", "github.com/go-faster/errors.Errorf":
				return true
			}
		}
	}
	for _, fact := range factsAt(blk) {
		if x, trueWhenNonNil, ok := nilCheck(fact.Cond); ok && x == v && fact.Truth == trueWhenNonNil {
			return true
		}
	}
	return false
}
