package main

// MO – map-iteration-order taint.
//
// Sources: `range` over a Go map, maps.Keys / maps.Values, and closures run by
// an iteration wrapper (a function that calls its func parameter inside such a
// region; external ordered containers' Range is treated the same way).
// Inside an order-nondeterministic region appends to slices that outlive the
// iteration create *tainted* slices (their element order is the map's), which
// flow field-based through the program; ranging over a tainted slice is again
// a region; sorting sanitises. Effects inside a region that do not commute
// (writes to hashes/builders/writers, floating-point accumulation, last-writer
// stores) are the sinks.

import (
	"fmt"
	"go/token"
	"go/types"
	"sort"
	"strings"

	"golang.org/x/tools/go/ssa"
)

type moField struct {
	Type  string
	Field string
}

type moRegion struct {
	Fn     *ssa.Function
	Blocks map[*ssa.BasicBlock]bool // nil: whole function (ONIC closure / callee)
	Kind   string                   // "map range", "tainted slice range", "callback of <wrapper>"
	Pos    token.Pos
	Desc   string
	Key    string
	// iteration variables: values derived from the current element
	Iter map[ssa.Value]bool
}

type moSink struct {
	Region *moRegion
	Pos    token.Pos
	What   string
	Path   []string
}

type moAnalysis struct {
	p     *Program
	funcs []*ssa.Function

	taintVal    map[ssa.Value]string // value -> why
	taintField  map[moField]string
	taintCell   map[ssa.Value]string // Alloc / Global / FreeVar cells holding a tainted slice
	taintParam  map[*ssa.Parameter]string
	taintResult map[string]string // fn|idx

	sortCalls map[*ssa.Function][]*ssa.Call

	regions   []*moRegion
	sinks     []moSink
	wrappers  map[*ssa.Function][]int // function -> indices of func params invoked inside a region
	onicFuncs map[*ssa.Function]string
	changed   bool
	methodIdx map[string][]*ssa.Function
}

func newMO(p *Program) *moAnalysis {
	m := &moAnalysis{p: p, taintVal: map[ssa.Value]string{}, taintField: map[moField]string{}, taintCell: map[ssa.Value]string{},
		taintParam: map[*ssa.Parameter]string{}, taintResult: map[string]string{}, sortCalls: map[*ssa.Function][]*ssa.Call{},
		wrappers: map[*ssa.Function][]int{}, onicFuncs: map[*ssa.Function]string{}, methodIdx: map[string][]*ssa.Function{}}
	m.funcs = p.SrcFuncs()
	for _, fn := range m.funcs {
		if fn.Signature.Recv() != nil {
			m.methodIdx[fn.Name()] = append(m.methodIdx[fn.Name()], fn)
		}
		for _, c := range callsIn(fn) {
			call, ok := c.(*ssa.Call)
			if !ok {
				continue
			}
			if isSortCall(call) {
				m.sortCalls[fn] = append(m.sortCalls[fn], call)
			}
		}
	}
	return m
}

func calleePkgName(c ssa.CallInstruction) (pkg, name string) {
	fn := c.Common().StaticCallee()
	if fn == nil {
		return "", ""
	}
	o := fn
	if fn.Origin() != nil {
		o = fn.Origin()
	}
	if o.Pkg != nil {
		pkg = o.Pkg.Pkg.Path()
	} else if o.Object() != nil && o.Object().Pkg() != nil {
		pkg = o.Object().Pkg().Path()
	}
	if o.Object() != nil {
		return pkg, canonName(o.Object())
	}
	return pkg, o.Name()
}

func isSortCall(c *ssa.Call) bool {
	pkg, name := calleePkgName(c)
	switch pkg {
	case "slices":
		return strings.HasPrefix(name, "Sort")
	case "sort":
		switch name {
		case "Slice", "SliceStable", "Strings", "Ints", "Float64s", "Sort", "Stable":
			return true
		}
	case "golang.org/x/exp/slices":
		return strings.HasPrefix(name, "Sort")
	}
	return false
}

func isMapsKeysValues(c ssa.CallInstruction) bool {
	pkg, name := calleePkgName(c)
	return (pkg == "golang.org/x/exp/maps" || pkg == "maps") && (name == "Keys" || name == "Values")
}

// sliceRoot: the cell or value a slice value was read from.
func sliceRoot(v ssa.Value) ssa.Value {
	for {
		switch x := v.(type) {
		case *ssa.ChangeType:
			v = x.X
		case *ssa.Convert:
			v = x.X
		case *ssa.Slice:
			v = x.X
		case *ssa.UnOp:
			if x.Op == token.MUL {
				return x.X // the address
			}
			return v
		default:
			return v
		}
	}
}

// sanitizedAt: a sort call on the same root dominates the use.
func (m *moAnalysis) sanitizedAt(v ssa.Value, use ssa.Instruction) bool {
	fn := use.Parent()
	root := sliceRoot(v)
	for _, s := range m.sortCalls[fn] {
		if len(s.Call.Args) == 0 {
			continue
		}
		sr := sliceRoot(s.Call.Args[0])
		same := sr == root || s.Call.Args[0] == v
		if !same {
			// loads of the same field of the same base
			if describe(sr, 0) == describe(root, 0) && !strings.HasPrefix(describe(root, 0), "new:") {
				same = true
			}
		}
		if same && (instrDominates(s, use) || s == use) {
			return true
		}
	}
	return false
}

func (m *moAnalysis) setVal(v ssa.Value, why string) {
	if _, ok := m.taintVal[v]; !ok {
		m.taintVal[v] = why
		m.changed = true
	}
}

func fieldKeyOf(addr ssa.Value) (moField, bool) {
	n, base, ok := fieldNameOf(addr)
	if !ok {
		return moField{}, false
	}
	return moField{typeKey(base.Type()), n}, true
}

func isSliceType(t types.Type) bool {
	_, ok := t.Underlying().(*types.Slice)
	return ok
}

// containsTaintedSlice: struct values that carry a tainted slice field are
// tracked through their field loads, so only slices themselves are tainted.
func (m *moAnalysis) tainted(v ssa.Value, at ssa.Instruction) (string, bool) {
	why, ok := m.taintVal[v]
	if !ok {
		return "", false
	}
	if at != nil && m.sanitizedAt(v, at) {
		return "", false
	}
	return why, true
}

// cellOf: resolve a FreeVar to the cells bound at its closure creations.
func (m *moAnalysis) boundCells(fv *ssa.FreeVar) []ssa.Value {
	fn := fv.Parent()
	var out []ssa.Value
	idx := -1
	for i, f := range fn.FreeVars {
		if f == fv {
			idx = i
		}
	}
	if idx < 0 || fn.Parent() == nil {
		return nil
	}
	allInstrs(fn.Parent(), func(in ssa.Instruction) {
		if mc, ok := in.(*ssa.MakeClosure); ok && mc.Fn == ssa.Value(fn) && idx < len(mc.Bindings) {
			out = append(out, mc.Bindings[idx])
		}
	})
	return out
}

func (m *moAnalysis) taintCellAddr(addr ssa.Value, why string) {
	set := func(c ssa.Value) {
		if _, ok := m.taintCell[c]; !ok {
			m.taintCell[c] = why
			m.changed = true
		}
	}
	switch x := addr.(type) {
	case *ssa.Alloc, *ssa.Global:
		set(x)
	case *ssa.FreeVar:
		set(x)
		for _, c := range m.boundCells(x) {
			m.taintCellAddr(c, why)
		}
	case *ssa.FieldAddr:
		if k, ok := fieldKeyOf(x); ok {
			if _, ok := m.taintField[k]; !ok {
				m.taintField[k] = why
				m.changed = true
			}
		}
	case *ssa.IndexAddr:
	}
}

func (m *moAnalysis) cellTainted(addr ssa.Value) (string, bool) {
	switch x := addr.(type) {
	case *ssa.Alloc, *ssa.Global:
		w, ok := m.taintCell[x]
		return w, ok
	case *ssa.FreeVar:
		if w, ok := m.taintCell[x]; ok {
			return w, true
		}
		for _, c := range m.boundCells(x) {
			if w, ok := m.cellTainted(c); ok {
				return w, true
			}
		}
	case *ssa.FieldAddr:
		if k, ok := fieldKeyOf(x); ok {
			w, ok := m.taintField[k]
			return w, ok
		}
	}
	return "", false
}

// propagate runs one pass of the taint transfer over all functions.
func (m *moAnalysis) propagate() {
	for _, fn := range m.funcs {
		for _, prm := range fn.Params {
			if w, ok := m.taintParam[prm]; ok {
				m.setVal(prm, w)
			}
		}
		for _, b := range fn.Blocks {
			for _, in := range b.Instrs {
				switch x := in.(type) {
				case *ssa.Call:
					if isMapsKeysValues(x) {
						pkg, name := calleePkgName(x)
						m.setVal(x, fmt.Sprintf("%s: %s.%s returns the map's keys/values in iteration order", m.p.Pos(x.Pos()), pkg, name))
					}
					m.propagateCall(x, x)
				case *ssa.Defer:
					m.propagateCall(x, nil)
				case *ssa.Go:
					m.propagateCall(x, nil)
				case *ssa.Extract:
					if c, ok := x.Tuple.(*ssa.Call); ok {
						for _, callee := range m.callees(c) {
							if w, ok := m.taintResult[fmt.Sprintf("%p|%d", callee, x.Index)]; ok {
								m.setVal(x, w)
							}
						}
					}
				case *ssa.Phi:
					for _, e := range x.Edges {
						if w, ok := m.tainted(e, x); ok {
							m.setVal(x, w)
						}
					}
				case *ssa.Slice:
					if w, ok := m.tainted(x.X, x); ok {
						m.setVal(x, w)
					}
				case *ssa.ChangeType:
					if w, ok := m.tainted(x.X, x); ok {
						m.setVal(x, w)
					}
				case *ssa.Convert:
					if isSliceType(x.Type()) {
						if w, ok := m.tainted(x.X, x); ok {
							m.setVal(x, w)
						}
					}
				case *ssa.UnOp:
					if x.Op == token.MUL && isSliceType(x.Type()) {
						if w, ok := m.cellTainted(x.X); ok && !m.sanitizedAt(x, x) {
							m.setVal(x, w)
						}
					}
				case *ssa.Field:
					if isSliceType(x.Type()) {
						if st, ok := x.X.Type().Underlying().(*types.Struct); ok {
							k := moField{typeKey(x.X.Type()), st.Field(x.Field).Name()}
							if w, ok := m.taintField[k]; ok {
								m.setVal(x, w)
							}
						}
					}
				case *ssa.Store:
					if isSliceType(x.Val.Type()) {
						if w, ok := m.tainted(x.Val, x); ok {
							m.taintCellAddr(x.Addr, w)
						}
					}
				case *ssa.Return:
					for i, rv := range x.Results {
						if !isSliceType(rv.Type()) {
							continue
						}
						if w, ok := m.tainted(rv, x); ok {
							k := fmt.Sprintf("%p|%d", fn, i)
							if _, ok := m.taintResult[k]; !ok {
								m.taintResult[k] = w
								m.changed = true
							}
						}
					}
				}
			}
		}
	}
}

// callees resolves a call to first-party functions: static callee, or for an
// interface call every first-party method of that name and arity.
func (m *moAnalysis) callees(c ssa.CallInstruction) []*ssa.Function {
	cc := c.Common()
	if fn := cc.StaticCallee(); fn != nil {
		if fn.Blocks == nil && fn.Origin() != nil && fn.Origin().Blocks != nil {
			return []*ssa.Function{fn.Origin()}
		}
		if fn.Origin() != nil && fn.Origin().Blocks != nil {
			return []*ssa.Function{fn.Origin()}
		}
		if fn.Blocks != nil {
			return []*ssa.Function{fn}
		}
		return nil
	}
	if cc.IsInvoke() {
		var out []*ssa.Function
		for _, f := range m.methodIdx[cc.Method.Name()] {
			if f.Signature.Params().Len() == cc.Method.Type().(*types.Signature).Params().Len() {
				out = append(out, f)
			}
		}
		return out
	}
	return nil
}

func (m *moAnalysis) propagateCall(c ssa.CallInstruction, val *ssa.Call) {
	cc := c.Common()
	callees := m.callees(c)
	for _, callee := range callees {
		args := cc.Args
		params := callee.Params
		if cc.IsInvoke() && len(params) > 0 {
			params = params[1:]
		}
		for i, a := range args {
			if i >= len(params) || !isSliceType(a.Type()) {
				continue
			}
			if w, ok := m.tainted(a, c); ok {
				if _, ok := m.taintParam[params[i]]; !ok {
					m.taintParam[params[i]] = w
					m.changed = true
				}
			}
		}
		if val != nil && isSliceType(val.Type()) {
			if w, ok := m.taintResult[fmt.Sprintf("%p|%d", callee, 0)]; ok {
				m.setVal(val, w)
			}
		}
	}
	// append inside a region is handled by regionEffects; plain append propagates taint of its operands
	if val != nil {
		if bi, ok := cc.Value.(*ssa.Builtin); ok && bi.Name() == "append" {
			for _, a := range cc.Args {
				if w, ok := m.tainted(a, c); ok {
					m.setVal(val, w)
				}
			}
		}
	}
}

// ---------------------------------------------------------------------------
// regions

func (m *moAnalysis) findRegions() {
	m.regions = nil
	seenKey := map[string]bool{}
	add := func(rg *moRegion) {
		if seenKey[rg.Key] {
			return
		}
		seenKey[rg.Key] = true
		m.regions = append(m.regions, rg)
	}
	for _, fn := range m.funcs {
		// map ranges
		nMap := 0
		allInstrs(fn, func(in ssa.Instruction) {
			rng, ok := in.(*ssa.Range)
			if !ok {
				return
			}
			if _, isMap := rng.X.Type().Underlying().(*types.Map); !isMap {
				return
			}
			for _, ref := range *rng.Referrers() {
				nx, ok := ref.(*ssa.Next)
				if !ok {
					continue
				}
				blocks := naturalLoop(nx.Block())
				iter := map[ssa.Value]bool{}
				for _, r2 := range *nx.Referrers() {
					if e, ok := r2.(*ssa.Extract); ok && e.Index > 0 {
						iter[e] = true
					}
				}
				nMap++
				add(&moRegion{Fn: fn, Blocks: blocks, Kind: "map range", Pos: rng.Pos(), Iter: iter,
					Desc: fmt.Sprintf("range over map %s in %s", describe(rng.X, 0), shortFuncName(fn)),
					Key:  fmt.Sprintf("%s range map %s#%d", shortFuncName(fn), describe(rng.X, 0), nMap)})
			}
		})
		// tainted slice ranges
		nSl := 0
		for _, l := range rangeIndexLoops(fn) {
			why, ok := m.tainted(l.X, l.Len)
			if !ok {
				continue
			}
			nSl++
			iter := map[ssa.Value]bool{}
			for b := range l.Blocks {
				for _, in := range b.Instrs {
					if ia, ok := in.(*ssa.IndexAddr); ok && ia.X == l.X {
						iter[ia] = true
						for _, ref := range *ia.Referrers() {
							if u, ok := ref.(*ssa.UnOp); ok {
								iter[u] = true
							}
						}
					}
				}
			}
			add(&moRegion{Fn: fn, Blocks: l.Blocks, Kind: "tainted slice range", Pos: l.Len.Pos(), Iter: iter,
				Desc: fmt.Sprintf("range over %s in %s, whose element order is a map's iteration order (%s)", describe(l.X, 0), shortFuncName(fn), why),
				Key:  fmt.Sprintf("%s range slice %s#%d", shortFuncName(fn), describe(l.X, 0), nSl)})
		}
	}
	// ONIC callbacks: closures handed to wrappers or to external Range-style iterators
	for _, fn := range m.funcs {
		for _, c := range callsIn(fn) {
			cc := c.Common()
			callee := cc.StaticCallee()
			var params []int
			wname := ""
			if callee != nil {
				o := callee
				if o.Origin() != nil {
					o = o.Origin()
				}
				if idxs, ok := m.wrappers[o]; ok {
					params = idxs
					wname = shortFuncName(o)
				} else if o.Blocks == nil && o.Name() == "Range" {
					// external ordered/unordered container iteration with a callback
					for i := range cc.Args {
						if _, ok := cc.Args[i].Type().Underlying().(*types.Signature); ok {
							params = append(params, i)
						}
					}
					wname = shortFuncName(o)
				}
			}
			for _, i := range params {
				if i >= len(cc.Args) {
					continue
				}
				cb := funcOfValue(cc.Args[i])
				if cb == nil || cb.Blocks == nil {
					continue
				}
				iter := map[ssa.Value]bool{}
				for _, prm := range cb.Params {
					iter[prm] = true
				}
				if _, ok := m.onicFuncs[cb]; !ok {
					m.onicFuncs[cb] = wname
					m.changed = true
				}
				add(&moRegion{Fn: cb, Blocks: nil, Kind: "callback of " + wname, Pos: cb.Pos(), Iter: iter,
					Desc: fmt.Sprintf("callback %s run by %s once per element of a map-ordered iteration", shortFuncName(cb), wname),
					Key:  fmt.Sprintf("%s callback of %s", shortFuncName(cb), wname)})
			}
		}
	}
}

// findWrappers: functions that invoke a func-typed parameter inside a region of their own body.
func (m *moAnalysis) findWrappers() {
	for _, rg := range m.regions {
		fn := rg.Fn
		each := func(in ssa.Instruction) {
			c, ok := in.(ssa.CallInstruction)
			if !ok {
				return
			}
			cc := c.Common()
			if cc.IsInvoke() || cc.StaticCallee() != nil {
				return
			}
			for i, prm := range fn.Params {
				if cc.Value == ssa.Value(prm) {
					have := false
					for _, j := range m.wrappers[fn] {
						if j == i {
							have = true
						}
					}
					if !have {
						m.wrappers[fn] = append(m.wrappers[fn], i)
						m.changed = true
					}
				}
			}
		}
		if rg.Blocks == nil {
			allInstrs(fn, each)
		} else {
			for b := range rg.Blocks {
				for _, in := range b.Instrs {
					each(in)
				}
			}
		}
	}
}

// ---------------------------------------------------------------------------
// effects

func isWriterLike(t types.Type) bool {
	if t == nil {
		return false
	}
	if p, ok := t.Underlying().(*types.Pointer); ok {
		_ = p
	}
	for _, name := range []string{"Write", "WriteString", "WriteByte", "WriteRune"} {
		if hasMethod(t, name) {
			return true
		}
	}
	return false
}

// addrRoot follows FieldAddr/IndexAddr/loads back to the defining value.
func addrRoot(v ssa.Value) ssa.Value {
	for i := 0; i < 32; i++ {
		switch x := v.(type) {
		case *ssa.FieldAddr:
			v = x.X
		case *ssa.IndexAddr:
			v = x.X
		case *ssa.UnOp:
			if x.Op == token.MUL {
				v = x.X
			} else {
				return v
			}
		case *ssa.ChangeType:
			v = x.X
		case *ssa.Slice:
			v = x.X
		case *ssa.MakeInterface:
			v = x.X
		case *ssa.ChangeInterface:
			v = x.X
		case *ssa.Field:
			v = x.X
		case *ssa.Extract:
			return v
		default:
			return v
		}
	}
	return v
}

func (m *moAnalysis) inRegion(rg *moRegion, in ssa.Instruction) bool {
	if in.Parent() != rg.Fn {
		return false
	}
	if rg.Blocks == nil {
		return true
	}
	return rg.Blocks[in.Block()]
}

// localToIteration: the root of an address/value is created inside the region
// (per iteration) or derives from the current element.
func (m *moAnalysis) localTo(rg *moRegion, root ssa.Value, local map[ssa.Value]bool) bool {
	if local[root] || rg.Iter[root] {
		return true
	}
	if in, ok := root.(ssa.Instruction); ok {
		switch root.(type) {
		case *ssa.Alloc, *ssa.MakeMap, *ssa.MakeSlice, *ssa.Call, *ssa.Extract, *ssa.Lookup, *ssa.Next, *ssa.MakeInterface, *ssa.MakeClosure:
			if m.inRegion(rg, in) {
				// a call result inside the region: fresh unless it returns shared state; treat as local
				return true
			}
		}
	}
	return false
}

func (m *moAnalysis) effects(rg *moRegion) {
	m.earlyExits(rg)
	visited := map[*ssa.Function]bool{}
	m.effectsIn(rg, rg.Fn, rg.Blocks, 0, visited, []string{m.p.Pos(rg.Pos) + ": " + rg.Desc}, map[ssa.Value]bool{})
}

func (m *moAnalysis) effectsIn(rg *moRegion, fn *ssa.Function, blocks map[*ssa.BasicBlock]bool, depth int, visited map[*ssa.Function]bool, path []string, local map[ssa.Value]bool) {
	isTop := fn == rg.Fn
	var instrs []ssa.Instruction
	for _, b := range fn.Blocks {
		if blocks != nil && !blocks[b] {
			continue
		}
		instrs = append(instrs, b.Instrs...)
	}
	isLocal := func(root ssa.Value) bool {
		if isTop {
			return m.localTo(rg, root, local)
		}
		// inside a callee: its own allocations are per call
		switch root.(type) {
		case *ssa.Alloc, *ssa.MakeMap, *ssa.MakeSlice, *ssa.Call, *ssa.Extract, *ssa.MakeInterface:
			return true
		case *ssa.Parameter:
			return local[root]
		}
		return false
	}
	for _, in := range instrs {
		switch x := in.(type) {
		case *ssa.Store:
			root := addrRoot(x.Addr)
			if isLocal(root) {
				continue
			}
			// append accumulation -> taint (not a sink)
			if c, ok := x.Val.(*ssa.Call); ok {
				if bi, ok := c.Call.Value.(*ssa.Builtin); ok && bi.Name() == "append" {
					why := fmt.Sprintf("%s: append in map-iteration order (%s)", m.p.Pos(x.Pos()), rg.Desc)
					m.setVal(c, why)
					m.taintCellAddr(x.Addr, why)
					continue
				}
			}
			if b, ok := x.Val.(*ssa.BinOp); ok {
				readsSame := func(v ssa.Value) bool {
					u, ok := v.(*ssa.UnOp)
					return ok && u.Op == token.MUL && (u.X == x.Addr || describe(u.X, 0) == describe(x.Addr, 0))
				}
				if readsSame(b.X) || readsSame(b.Y) {
					if bt, ok := b.Type().Underlying().(*types.Basic); ok && bt.Info()&types.IsFloat != 0 {
						m.sinks = append(m.sinks, moSink{rg, x.Pos(), fmt.Sprintf("floating-point accumulation %s into %s: the result depends on the order of the operands", b.Op, describe(x.Addr, 0)), append(append([]string{}, path...), m.p.Pos(x.Pos())+": "+describe(x.Addr, 0)+" "+b.Op.String()+"= ...")})
					}
					continue // integer accumulation commutes
				}
			}
			// loop-invariant value?
			if _, isConst := x.Val.(*ssa.Const); isConst {
				continue
			}
			if vi, ok := x.Val.(ssa.Instruction); ok && isTop && !m.inRegion(rg, vi) {
				continue
			}
			if _, ok := x.Val.(*ssa.Parameter); ok && isTop && !rg.Iter[x.Val] {
				continue
			}
			// storing into an element addressed by an index that is itself iteration-local (compaction idiom) or into a map element is fine;
			// anything else is a last-writer-wins store
			if ia, ok := x.Addr.(*ssa.IndexAddr); ok {
				_ = ia
				continue
			}
			// lazy initialisation: a fresh empty container stored under `if <the same place> == nil`
			// happens once, whatever the order
			if _, fresh := x.Val.(*ssa.MakeMap); fresh {
				lazy := false
				for _, f := range factsAt(x.Block()) {
					if v, nonNil, ok := nilCheck(f.Cond); ok && nonNil != f.Truth {
						if u, ok := v.(*ssa.UnOp); ok && u.Op == token.MUL && (u.X == x.Addr || describe(u.X, 0) == describe(x.Addr, 0)) {
							lazy = true
						}
					}
				}
				if lazy {
					continue
				}
			}
			m.sinks = append(m.sinks, moSink{rg, x.Pos(), fmt.Sprintf("store of an iteration-dependent value into %s, which outlives the iteration (last writer wins)", describe(x.Addr, 0)), append(append([]string{}, path...), m.p.Pos(x.Pos())+": store "+describe(x.Addr, 0))})
		case *ssa.MapUpdate:
			// commutative under distinct keys
		case ssa.CallInstruction:
			cc := x.Common()
			if bi, ok := cc.Value.(*ssa.Builtin); ok {
				if bi.Name() == "append" && isTop {
					if call, ok := x.(*ssa.Call); ok && len(cc.Args) > 0 {
						a0 := cc.Args[0]
						carried := false
						switch y := a0.(type) {
						case *ssa.Phi:
							// loop-carried accumulator: an edge enters from outside the region
							for i := range y.Edges {
								if pb := y.Block().Preds[i]; rg.Blocks != nil && !rg.Blocks[pb] {
									carried = true
								}
							}
						default:
							if vi, ok := a0.(ssa.Instruction); ok && !m.inRegion(rg, vi) {
								carried = true
							}
							if _, ok := a0.(*ssa.Parameter); ok && !rg.Iter[a0] {
								carried = true
							}
						}
						if carried {
							m.setVal(call, fmt.Sprintf("%s: append in map-iteration order (%s)", m.p.Pos(x.Pos()), rg.Desc))
						}
					}
				}
				continue
			}
			// writer-like receiver or argument that outlives the region
			var cands []ssa.Value
			if cc.IsInvoke() {
				cands = append(cands, cc.Value)
			}
			cands = append(cands, cc.Args...)
			sunk := false
			for _, a := range cands {
				if !isWriterLike(a.Type()) {
					continue
				}
				if isLocal(addrRoot(a)) {
					continue
				}
				name := calleeName(x)
				m.sinks = append(m.sinks, moSink{rg, x.Pos(), fmt.Sprintf("%s writes to %s (%s), which outlives the iteration: the bytes written depend on map iteration order", name, describe(a, 0), shortType(a.Type())), append(append([]string{}, path...), m.p.Pos(x.Pos())+": "+name)})
				sunk = true
				break
			}
			if sunk {
				continue
			}
			// dynamic call of a func parameter: wrappers – resolved through the closures bound at call sites
			if !cc.IsInvoke() && cc.StaticCallee() == nil {
				continue // handled as ONIC callbacks
			}
			if depth >= 4 {
				continue
			}
			for _, callee := range m.callees(x) {
				if visited[callee] || callee.Blocks == nil {
					continue
				}
				if callee.Pkg != nil && !isFirstParty(callee.Pkg.Pkg.Path()) {
					continue
				}
				visited[callee] = true
				// parameters bound to iteration-local arguments are local in the callee
				clocal := map[ssa.Value]bool{}
				params := callee.Params
				args := cc.Args
				if cc.IsInvoke() && len(params) > 0 {
					// receiver
					if isLocal(addrRoot(cc.Value)) {
						clocal[params[0]] = true
					}
					params = params[1:]
				}
				for i, a := range args {
					if i < len(params) && isLocal(addrRoot(a)) {
						clocal[params[i]] = true
					}
				}
				m.effectsIn(rg, callee, nil, depth+1, visited, append(append([]string{}, path...), m.p.Pos(x.Pos())+": calls "+shortFuncName(callee)), clocal)
			}
		}
	}
}

// earlyExits: a loop over a map that stops at the first element satisfying some condition after
// having acted on it (or that hands the element out) acts on a map-order-dependent element.
// Exits that report an error are the usual "fail on the first problem" idiom and are not flagged.
func (m *moAnalysis) earlyExits(rg *moRegion) {
	if rg.Kind != "map range" || rg.Blocks == nil {
		return
	}
	ps := &puritySummary{memo: map[*ssa.Function]int{}}
	var header *ssa.BasicBlock
	for b := range rg.Blocks {
		for _, in := range b.Instrs {
			if _, ok := in.(*ssa.Next); ok {
				header = b
			}
		}
	}
	if header == nil {
		return
	}
	// blocks of the loop that contain an observable effect
	effectAt := map[*ssa.BasicBlock]ssa.Instruction{}
	for b := range rg.Blocks {
		for _, in := range b.Instrs {
			if _, isNext := in.(*ssa.Next); isNext {
				continue
			}
			if hasLoopVisibleEffect(in, ps, 0) {
				if _, has := effectAt[b]; !has {
					effectAt[b] = in
				}
			}
		}
	}
	derived := func(v ssa.Value) bool {
		for _, lv := range phiLeaves(v) {
			if rg.Iter[lv] || rg.Iter[unspill(lv)] {
				return true
			}
		}
		return false
	}
	for b := range rg.Blocks {
		if b == header {
			continue
		}
		for _, s := range b.Succs {
			if rg.Blocks[s] {
				continue
			}
			// b -> s leaves the loop early
			var rets []*ssa.Return
			seen := map[*ssa.BasicBlock]bool{}
			var walk func(x *ssa.BasicBlock, d int)
			walk = func(x *ssa.BasicBlock, d int) {
				if seen[x] || d > 6 {
					return
				}
				seen[x] = true
				if ret, ok := x.Instrs[len(x.Instrs)-1].(*ssa.Return); ok {
					rets = append(rets, ret)
					return
				}
				if d > 0 && len(x.Instrs) > 3 {
					return // real code after the loop: a break, judged by effects only
				}
				for _, n := range x.Succs {
					walk(n, d+1)
				}
			}
			walk(s, 0)
			errorExit := len(rets) > 0
			handsOut := false
			for _, ret := range rets {
				isErr := false
				for _, res := range ret.Results {
					if isErrorType(res.Type()) && !isNilConst(res) {
						isErr = true
					}
					if derived(res) {
						handsOut = true
					}
				}
				if !isErr {
					errorExit = false
				}
			}
			if errorExit {
				continue
			}
			var eff ssa.Instruction
			for eb, in := range effectAt {
				if eb == b || eb.Dominates(b) {
					eff = in
				}
			}
			earlier := false
			if eff == nil {
				// an effect anywhere in the loop body has run for the elements visited before this
				// one: which elements those are depends on the map's iteration order
				for eb, in := range effectAt {
					if eb != header {
						eff, earlier = in, true
					}
				}
			}
			if eff == nil && !handsOut {
				continue // a pure search with an order-independent answer
			}
			what := "the loop over the map stops early after acting on the current element: which element is acted on depends on the map's iteration order"
			if earlier {
				what = "the loop over the map acts on each element it visits and can stop early: which elements were acted on before it stops depends on the map's iteration order"
			}
			pos := termPos(b)
			if eff != nil {
				pos = eff.Pos()
			} else {
				what = "the loop over the map returns a value taken from the first element that satisfies the condition: which one depends on the map's iteration order"
			}
			m.sinks = append(m.sinks, moSink{Region: rg, Pos: pos, What: what, Path: []string{m.p.Pos(rg.Pos) + ": " + rg.Desc}})
		}
	}
}

func (m *moAnalysis) run() {
	for iter := 0; iter < 30; iter++ {
		m.changed = false
		m.propagate()
		m.findRegions()
		m.findWrappers()
		m.sinks = nil
		for _, rg := range m.regions {
			m.effects(rg)
		}
		if !m.changed {
			break
		}
	}
	sort.SliceStable(m.regions, func(i, j int) bool { return m.regions[i].Key < m.regions[j].Key })
}

// ruleMO reports one obligation per order-nondeterministic region.
func ruleMO(r *Run, floor int, scope ...string) {
	m := newMO(r.P)
	m.run()
	// The generated API package (ogen JSON encoders/decoders) is out of scope: the command never
	// serialises a response, JSON object member order is not significant, and API result
	// slices are compared as sets by the properties. Taint still flows through its types.
	var kept []*moRegion
	for _, rg := range m.regions {
		pk := rg.Fn.Pkg
		if pk == nil && rg.Fn.Parent() != nil {
			pk = rg.Fn.Parent().Pkg
		}
		if pk != nil && pk.Pkg.Path() == modPath+"/internal/lokiapi" {
			continue
		}
		kept = append(kept, rg)
	}
	m.regions = kept
	nSrc := 0
	for _, rg := range m.regions {
		if rg.Kind == "map range" {
			nSrc++
		}
	}
	r.count("map_order_regions", len(m.regions))
	r.count("map_range_sources", nSrc)
	inv := r.Ob("MO", "inventory", "every map-iteration-order source in first-party code is analysed")
	inv.Trivial = true
	if len(m.regions) < floor {
		inv.Fail("-", "only %d order-nondeterministic regions found, the confirmed floor is %d", len(m.regions), floor)
	} else {
		inv.OK("%d map range loops, %d order-nondeterministic regions in total", nSrc, len(m.regions))
	}
	if len(scope) > 0 {
		// keep the regions of the named functions / packages only (the other regions belong to other properties)
		var in []*moRegion
		for _, rg := range m.regions {
			for _, sc := range scope {
				if strings.Contains(rg.Key, sc) {
					in = append(in, rg)
					break
				}
			}
		}
		m.regions = in
	}
	byRegion := map[*moRegion][]moSink{}
	for _, s := range m.sinks {
		byRegion[s.Region] = append(byRegion[s.Region], s)
	}
	for _, rg := range m.regions {
		o := r.Ob("MO", rg.Key, "nothing order-sensitive (hash/builder/writer output, floating-point accumulation, last-writer store) depends on the order of this iteration")
		o.At(r.pos(rg.Pos))
		sinks := byRegion[rg]
		if len(sinks) == 0 {
			o.OK("%s: only commutative effects (map stores, deletes, integer accumulation, appends that are sorted or only consumed order-insensitively)", rg.Kind)
			continue
		}
		seen := map[string]bool{}
		for _, s := range sinks {
			k := r.pos(s.Pos) + s.What
			if seen[k] {
				continue
			}
			seen[k] = true
			o.Fail(r.pos(s.Pos), "%s", s.What)
			o.WithPath(s.Path...)
		}
	}
	// tainted cells summary (evidence)
	var fields []string
	for k, w := range m.taintField {
		fields = append(fields, k.Type+"."+k.Field+" <- "+w)
	}
	sort.Strings(fields)
	if len(fields) > 8 {
		fields = fields[:8]
	}
	for _, f := range fields {
		r.Notes = append(r.Notes, "MO tainted field: "+f)
	}
}
