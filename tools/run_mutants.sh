#!/bin/bash
# usage: run_mutants.sh [Cxx ...] — run each own mutant's property check against a scratch copy with the patch applied
cd /verif/mutants || exit 1
list="$@"; [ -z "$list" ] && list=$(ls)
for p in $list; do
  for f in $p/*.patch; do
    [ -f "$f" ] || continue
    out=$(HEAD=60 CUT=230 /verif/tools/trymut.sh "$p" /verif/mutants/$f 2>&1)
    if echo "$out" | grep -q "^VIOLATION"; then echo "== $f: CAUGHT"; else echo "== $f: MISSED ($(echo "$out" | head -1 | cut -c1-120))"; echo "$out" | grep -E "PATCH|BUILD" | head -2; fi
  done
done
