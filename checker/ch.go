package main

// CH – enum/table chains: extraction of `case constant -> outcome` relations
// from dispatch code (switch, if-chain, early-return ladder alike, because the
// relation is read off the feasible paths under the assumption tag == c).

import (
	"fmt"
	"go/ast"
	"go/constant"
	"go/token"
	"go/types"
	"sort"
	"strings"

	"golang.org/x/tools/go/ssa"
)

// describe renders a small SSA expression canonically (operands of
// commutative comparisons sorted, > and >= rewritten to < and <=).
func describe(v ssa.Value, depth int) string {
	if depth > 6 {
		return "…"
	}
	switch x := v.(type) {
	case nil:
		return "<nil>"
	case *ssa.Const:
		if x.Value == nil {
			return "nil"
		}
		return "const:" + x.Value.ExactString()
	case *ssa.Parameter:
		return "param:" + x.Name()
	case *ssa.FreeVar:
		return "free:" + x.Name()
	case *ssa.MakeInterface:
		return "iface(" + describe(x.X, depth+1) + ")"
	case *ssa.ChangeType:
		return describe(x.X, depth+1)
	case *ssa.ChangeInterface:
		return describe(x.X, depth+1)
	case *ssa.Convert:
		return "conv[" + shortType(x.Type()) + "](" + describe(x.X, depth+1) + ")"
	case *ssa.Alloc:
		if st := storesTo(x); len(st) == 1 {
			if prm, ok := st[0].Val.(*ssa.Parameter); ok {
				return "param:" + prm.Name()
			}
		}
		if x.Comment != "" && x.Comment != "complit" && x.Comment != "varargs" {
			return "local:" + x.Comment
		}
		return "new:" + shortType(x.Type())
	case *ssa.MakeClosure:
		return "closure:" + shortFuncName(x.Fn.(*ssa.Function))
	case *ssa.Function:
		return "func:" + shortFuncName(x)
	case *ssa.Global:
		return "global:" + x.Name()
	case *ssa.UnOp:
		switch x.Op {
		case token.MUL:
			if n, base, ok := fieldNameOf(x.X); ok {
				return describe(base, depth+1) + "." + n
			}
			return "*" + describe(x.X, depth+1)
		case token.NOT:
			return "not(" + describe(x.X, depth+1) + ")"
		case token.SUB:
			return "neg(" + describe(x.X, depth+1) + ")"
		}
		return x.Op.String() + "(" + describe(x.X, depth+1) + ")"
	case *ssa.Field:
		if n, base, ok := fieldNameOf(x); ok {
			return describe(base, depth+1) + "." + n
		}
	case *ssa.FieldAddr:
		if n, base, ok := fieldNameOf(x); ok {
			return "&" + describe(base, depth+1) + "." + n
		}
	case *ssa.BinOp:
		a, b := describe(x.X, depth+1), describe(x.Y, depth+1)
		op := x.Op
		switch op {
		case token.GTR:
			op, a, b = token.LSS, b, a
		case token.GEQ:
			op, a, b = token.LEQ, b, a
		case token.EQL, token.NEQ, token.ADD, token.MUL:
			if b < a && !isStringType(x.X.Type()) || (op == token.EQL || op == token.NEQ) && b < a {
				a, b = b, a
			}
		}
		return op.String() + "(" + a + "," + b + ")"
	case *ssa.Call:
		args := []string{}
		for _, a := range x.Call.Args {
			args = append(args, describe(a, depth+1))
		}
		if x.Call.IsInvoke() {
			return "invoke:" + describe(x.Call.Value, depth+1) + "." + x.Call.Method.Name() + "(" + strings.Join(args, ",") + ")"
		}
		return "call:" + calleeName(x) + "(" + strings.Join(args, ",") + ")"
	case *ssa.Extract:
		return describe(x.Tuple, depth+1) + fmt.Sprintf("#%d", x.Index)
	case *ssa.Phi:
		var es []string
		for _, e := range x.Edges {
			es = append(es, describe(e, depth+1))
		}
		sort.Strings(es)
		return "phi(" + strings.Join(dedup(es), "|") + ")"
	case *ssa.TypeAssert:
		return "assert[" + shortType(x.AssertedType) + "](" + describe(x.X, depth+1) + ")"
	case *ssa.Lookup:
		return "lookup(" + describe(x.X, depth+1) + "," + describe(x.Index, depth+1) + ")"
	case *ssa.Slice:
		return "slice(" + describe(x.X, depth+1) + "," + describe(x.Low, depth+1) + "," + describe(x.High, depth+1) + ")"
	case *ssa.IndexAddr:
		return "&" + describe(x.X, depth+1) + "[" + describe(x.Index, depth+1) + "]"
	case *ssa.Index:
		return describe(x.X, depth+1) + "[" + describe(x.Index, depth+1) + "]"
	}
	return fmt.Sprintf("%T:%s", v, v.Name())
}

func isStringType(t types.Type) bool {
	b, ok := t.Underlying().(*types.Basic)
	return ok && b.Info()&types.IsString != 0
}

func dedup(xs []string) []string {
	var out []string
	for i, x := range xs {
		if i == 0 || xs[i-1] != x {
			out = append(out, x)
		}
	}
	return out
}

func shortType(t types.Type) string {
	return canonType(t)
}

// canonType prints a type with package names, aliases resolved everywhere.
func canonType(t types.Type) string {
	switch x := t.(type) {
	case *types.Alias:
		return canonType(types.Unalias(x))
	case *types.Pointer:
		return "*" + canonType(x.Elem())
	case *types.Slice:
		return "[]" + canonType(x.Elem())
	case *types.Named:
		name := x.Obj().Name()
		if x.Obj().Pkg() != nil {
			name = x.Obj().Pkg().Name() + "." + name
		}
		if ta := x.TypeArgs(); ta != nil && ta.Len() > 0 {
			var args []string
			for i := 0; i < ta.Len(); i++ {
				args = append(args, canonType(ta.At(i)))
			}
			name += "[" + strings.Join(args, ",") + "]"
		}
		return name
	}
	return strings.ReplaceAll(types.TypeString(t, func(p *types.Package) string { return p.Name() }), ", ", ",")
}

// typeArgsOf returns the names of the type arguments of a named instance.
func typeArgsOf(t types.Type) []string {
	n := namedOf(t)
	if n == nil || n.TypeArgs() == nil {
		return nil
	}
	var out []string
	for i := 0; i < n.TypeArgs().Len(); i++ {
		out = append(out, shortType(n.TypeArgs().At(i)))
	}
	return out
}

// ---------------------------------------------------------------------------

type caseResult struct {
	Const string
	Val   constant.Value
	Ends  []*feEnd
	W     *feWalker
}

// casesOf evaluates fn once per named constant of the tag's type (plus the
// pseudo-case "<other>" standing for any value that is none of them).
func casesOf(fn *ssa.Function, tag ssa.Value, consts map[string]constant.Value, extra map[ssa.Value]constant.Value, hook feHook) []caseResult {
	return casesOfInline(fn, tag, consts, extra, hook, nil)
}

// casesOfInline is casesOf with an inlining policy for the walker (helpers and
// functions taken from constant function tables are followed).
func casesOfInline(fn *ssa.Function, tag ssa.Value, consts map[string]constant.Value, extra map[ssa.Value]constant.Value, hook feHook, inline func(*ssa.Function, int) bool) []caseResult {
	return casesOfInlineCo(fn, []ssa.Value{tag}, consts, extra, hook, inline)
}

// casesOfInlineCo: several dispatch values stand for the same quantity (the same parameter seen
// in several instantiations of a generic helper): all of them are assumed equal to the case's
// constant.
func casesOfInlineCo(fn *ssa.Function, tags []ssa.Value, consts map[string]constant.Value, extra map[ssa.Value]constant.Value, hook feHook, inline func(*ssa.Function, int) bool) []caseResult {
	names := make([]string, 0, len(consts))
	for n := range consts {
		names = append(names, n)
	}
	sort.Slice(names, func(i, j int) bool {
		a, b := consts[names[i]], consts[names[j]]
		if a.Kind() == constant.Int && b.Kind() == constant.Int && !constant.Compare(a, token.EQL, b) {
			return constant.Compare(a, token.LSS, b)
		}
		return names[i] < names[j]
	})
	var out []caseResult
	run := func(name string, val constant.Value) {
		assume := map[ssa.Value]constant.Value{}
		home := func(v ssa.Value) *ssa.Function {
			// the function a dispatch value lives in (a helper of fn when the dispatch was extracted)
			if in, ok := v.(ssa.Instruction); ok && in.Parent() != nil {
				return in.Parent()
			}
			if prm, ok := v.(*ssa.Parameter); ok && prm.Parent() != nil {
				return prm.Parent()
			}
			return fn
		}
		for _, tag := range tags {
			for _, t := range equivLoads(home(tag), tag) {
				assume[t] = val
			}
		}
		for k, v := range extra {
			for _, t := range equivLoads(home(k), k) {
				assume[t] = v
			}
		}
		w := &feWalker{Fn: fn, Assume: assume, Hook: hook, Inline: inline}
		ends := w.Run()
		out = append(out, caseResult{Const: name, Val: val, Ends: ends, W: w})
	}
	for _, n := range names {
		run(n, consts[n])
	}
	// other: a value distinct from all constants
	var other constant.Value
	for _, n := range names {
		if consts[n].Kind() == constant.String {
			other = constant.MakeString("\x00<other>\x00")
			break
		}
	}
	if other == nil {
		other = constant.MakeInt64(1 << 40)
	}
	run("<other>", other)
	return out
}

// isErrEnd: the path ends in a return whose last result is a non-nil error
// (anything but the constant nil).
func endReturnsError(e *feEnd) (isErr, known bool) {
	r, ok := e.Term.(*ssa.Return)
	if !ok || len(e.Results) == 0 {
		return false, false
	}
	last := r.Results[len(r.Results)-1]
	if !isErrorType(last.Type()) {
		return false, false
	}
	v := e.Results[len(e.Results)-1].V
	if isNilConst(v) {
		return false, true
	}
	// values that are certainly non-nil: MakeInterface, results of error constructors
	switch x := stripTypeOnly(v).(type) {
	case *ssa.Alloc:
		return true, true
	case *ssa.Call:
		if isErrorCtor(x) {
			// Wrap/Wrapf(err, ..) is nil when err is nil: it only counts as an error
			// when the wrapped value is known non-nil on this path
			return true, true
		}
	}
	if _, ok := v.(*ssa.MakeInterface); ok {
		return true, true
	}
	// known non-nil on this path through a taken branch `v != nil`
	for _, f := range e.State.free {
		if x, nn, ok := nilCheck(f.Cond); ok && x == v {
			return nn == f.Truth, true
		}
	}
	return false, false
}

// isErrorCtor recognises calls that always return a non-nil error: the
// standard constructors, and any function with a body all of whose returns
// yield such a value (computed from the callee's own SSA, so helpers like
// unexpectedToken or an extracted errInvalidOperation need no list).
func isErrorCtor(c *ssa.Call) bool {
	fn := c.Common().StaticCallee()
	if fn == nil {
		return false
	}
	return fnAlwaysErr(fn, 0)
}

var alwaysErrMemo = map[*ssa.Function]int{} // 0 unknown, 1 yes, 2 no, 3 in progress

func fnAlwaysErr(fn *ssa.Function, depth int) bool {
	if fn.Origin() != nil {
		fn = fn.Origin()
	}
	switch alwaysErrMemo[fn] {
	case 1:
		return true
	case 2, 3:
		return false
	}
	pkg := ""
	if fn.Pkg != nil {
		pkg = fn.Pkg.Pkg.Path()
	}
	name := fn.Name()
	switch pkg {
	case "errors":
		if name == "New" {
			alwaysErrMemo[fn] = 1
			return true
		}
	case "fmt":
		if name == "Errorf" {
			alwaysErrMemo[fn] = 1
			return true
		}
	}
	res := fn.Signature.Results()
	if depth > 4 || res.Len() != 1 || !isErrorType(res.At(0).Type()) {
		alwaysErrMemo[fn] = 2
		return false
	}
	if fn.Blocks == nil && fn.Pkg != nil {
		fn.Pkg.Build()
	}
	if len(fn.Blocks) == 0 {
		alwaysErrMemo[fn] = 2
		return false
	}
	alwaysErrMemo[fn] = 3
	ok := true
	for _, ret := range returnsOf(fn) {
		for _, lv := range phiLeaves(ret.Results[0]) {
			switch x := lv.(type) {
			case *ssa.MakeInterface:
				if _, isAlloc := x.X.(*ssa.Alloc); !isAlloc {
					if _, isConst := x.X.(*ssa.Const); isConst {
						ok = false
					}
				}
			case *ssa.Call:
				callee := x.Common().StaticCallee()
				if callee == nil || !fnAlwaysErr(callee, depth+1) {
					ok = false
				}
			default:
				ok = false
			}
		}
	}
	if ok {
		alwaysErrMemo[fn] = 1
	} else {
		alwaysErrMemo[fn] = 2
	}
	return ok
}

// fieldStores lists, for a path, the evaluated values stored into fields with
// the given name (optionally restricted to struct type names).
func fieldStores(e *feEnd, field string, structNames ...string) []feVal {
	var out []feVal
	for _, s := range e.State.stores {
		n, base, ok := fieldNameOf(s.Store.Addr)
		if !ok || n != field {
			continue
		}
		if len(structNames) > 0 {
			tn := typeKey(base.Type())
			found := false
			for _, sn := range structNames {
				if sn == tn {
					found = true
				}
			}
			if !found {
				continue
			}
		}
		out = append(out, s.Val)
	}
	return out
}

// constName maps a constant value back to the declared name in an enum.
func constName(consts map[string]constant.Value, v constant.Value) string {
	var names []string
	for n, c := range consts {
		if strings.HasPrefix(n, "_") {
			continue
		}
		if c.Kind() == v.Kind() && constant.Compare(c, token.EQL, v) {
			names = append(names, n)
		}
	}
	sort.Strings(names)
	if len(names) == 0 {
		return "<" + v.ExactString() + ">"
	}
	return names[0]
}

// ---------------------------------------------------------------------------
// AST helper: map literal keyed by constants

type mapLitEntry struct {
	Key   constant.Value
	Val   constant.Value
	ValTV types.TypeAndValue
	Pos   token.Pos
}

// mapLiteralOfVar finds the composite literal initialising package-level var `name`.
func mapLiteralOfVar(p *Program, rel, name string) ([]mapLitEntry, token.Pos, bool) {
	pkg := p.Pkg(rel)
	if pkg == nil {
		return nil, token.NoPos, false
	}
	for _, f := range pkg.Syntax {
		for _, d := range f.Decls {
			gd, ok := d.(*ast.GenDecl)
			if !ok || gd.Tok != token.VAR {
				continue
			}
			for _, sp := range gd.Specs {
				vs := sp.(*ast.ValueSpec)
				for i, id := range vs.Names {
					if id.Name != name || i >= len(vs.Values) {
						continue
					}
					cl, ok := vs.Values[i].(*ast.CompositeLit)
					if !ok {
						return nil, id.Pos(), false
					}
					var out []mapLitEntry
					for _, el := range cl.Elts {
						kv, ok := el.(*ast.KeyValueExpr)
						if !ok {
							return nil, id.Pos(), false
						}
						ktv := pkg.TypesInfo.Types[kv.Key]
						vtv := pkg.TypesInfo.Types[kv.Value]
						out = append(out, mapLitEntry{Key: ktv.Value, Val: vtv.Value, ValTV: vtv, Pos: kv.Pos()})
					}
					return out, id.Pos(), true
				}
			}
		}
	}
	return nil, token.NoPos, false
}

func tokenEQLv() token.Token { return token.EQL }

// equivLoads: all SSA values in fn that read the same single-assignment
// location as tag (go/ssa does no CSE, so `t.Type` read twice is two values).
func equivLoads(fn *ssa.Function, tag ssa.Value) []ssa.Value {
	out := []ssa.Value{tag}
	switch x := tag.(type) {
	case *ssa.UnOp:
		if x.Op != token.MUL {
			return out
		}
		fa, ok := x.X.(*ssa.FieldAddr)
		if !ok {
			return out
		}
		if base, ok := fa.X.(*ssa.Alloc); ok {
			if len(storesTo(base)) > 1 {
				return out
			}
		}
		refs := fa.X.Referrers()
		if refs == nil {
			return out
		}
		// no stores through any FieldAddr of this field of the same base; the field of the
		// node that is dispatched on is assumed not to be written behind the function's back
		// by its callees (no rule-relevant builder mutates the AST node it reads)
		for _, ref := range *refs {
			if fa2, ok := ref.(*ssa.FieldAddr); ok && fa2.Field == fa.Field && len(storesTo(fa2)) > 0 {
				return out
			}
		}
		for _, ref := range *refs {
			if fa2, ok := ref.(*ssa.FieldAddr); ok && fa2.Field == fa.Field {
				for _, r2 := range *fa2.Referrers() {
					if u, ok := r2.(*ssa.UnOp); ok && u.Op == token.MUL && u != x {
						out = append(out, u)
					}
				}
			}
		}
	case *ssa.Field:
		for _, ref := range *x.X.Referrers() {
			if f2, ok := ref.(*ssa.Field); ok && f2.Field == x.Field && f2 != x {
				out = append(out, f2)
			}
		}
	}
	return out
}

func isWrapCall(c *ssa.Call) bool {
	fn := c.Common().StaticCallee()
	if fn == nil || fn.Pkg == nil {
		return false
	}
	return fn.Pkg.Pkg.Path() == "github.com/go-faster/errors" && (fn.Name() == "Wrap" || fn.Name() == "Wrapf")
}

// wrappedNonNil: is the wrapped error known non-nil (true,true), known nil (false,true) or unknown on this path?
func wrappedNonNil(e *feEnd, w ssa.Value, depth int) (bool, bool) {
	if depth > 4 {
		return false, false
	}
	if e.State != nil {
		if u, ok := w.(*ssa.UnOp); ok {
			if lv, ok := e.State.loads[u]; ok && lv.V != nil {
				w = lv.V
			}
		}
		if phi, ok := w.(*ssa.Phi); ok {
			if src, ok := e.State.phiSrc[phi]; ok {
				w = src
			}
		}
	}
	if isNilConst(w) {
		return false, true
	}
	switch x := stripTypeOnly(w).(type) {
	case *ssa.Alloc:
		return true, true
	case *ssa.Call:
		if isErrorCtor(x) {
			return true, true
		}
	}
	if _, ok := w.(*ssa.MakeInterface); ok {
		return true, true
	}
	if e.State != nil {
		for _, f := range e.State.free {
			if x, nn, ok := nilCheck(f.Cond); ok && x == w {
				return nn == f.Truth, true
			}
		}
	}
	return false, false
}

var wrapSummary = map[*ssa.Function]bool{}

// wrapAlwaysNonNil reads the wrap helper's own source (module cache): does every
// return yield a freshly allocated, hence non-nil, error? (go-faster/errors.Wrap
// does – unlike pkg/errors.Wrap it does not map nil to nil.)
func wrapAlwaysNonNil(c *ssa.Call) bool {
	fn := c.Common().StaticCallee()
	if fn == nil {
		return false
	}
	if v, ok := wrapSummary[fn]; ok {
		return v
	}
	if fn.Blocks == nil && fn.Pkg != nil {
		fn.Pkg.Build()
	}
	res := len(fn.Blocks) > 0
	for _, ret := range returnsOf(fn) {
		if len(ret.Results) != 1 {
			res = false
			continue
		}
		mi, ok := ret.Results[0].(*ssa.MakeInterface)
		if !ok {
			res = false
			continue
		}
		if _, ok := mi.X.(*ssa.Alloc); !ok {
			res = false
		}
	}
	wrapSummary[fn] = res
	return res
}
