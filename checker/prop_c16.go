package main

func init() {
	register(&PropSpec{
		ID:          "C16",
		Technique:   "sign analysis of the step on success paths (finite-case over taken guards), error-propagation and error-checked rules, constant/role provenance on the flag-resolution code",
		Explanation: "Decides the structural clauses of flag resolution for all flag values: every step that reaches the engine is strictly positive (explicit steps guarded by > 0, default floored at 1s, NaN/Inf rejected); malformed values reach failure exits and their own error variable is the one tested; the since default equals the advertised 6h; default step formula; end defaults to now and start to min(end, now) - since; integer timestamps are seconds up to a 10..17 digit threshold and nanoseconds above, fractional seconds are rounded, text is RFC3339Nano; the engine receives exactly the parsed values.",
		Decided: []string{
			"PV-OKGATE: defaultStep only where the step parameter is absent (Get ok == false)",
			"PV-CONST: fractional seconds are scaled by float64(time.Second) before the conversion to a duration; fractional unix seconds pass through math.Round between math.Modf and time.Unix",
			"FE-SIGN: parseStep success values are defaultStep(..) or guarded by d > 0; defaultStep uses math.Max(.., >=1); parseDuration rejects NaN/Inf",
			"ERR-PROP / ERR-CHECKED: parseTimeRange, parseStep, RunE propagate and test each call's own error; try-next parsers never return nil when all parsers failed",
			"PV-CONST: 6*time.Hour == flag default \"6h\"; /250, math.Floor, *time.Second; plain number * time.Second",
			"PV-ROLE: end default now; start default (end.After(now) ? now : end).Add(-since); RunE wiring of start/end/step/limit",
			"FE-INT: len(value) threshold T with 10 <= T < 18 selecting time.Unix(n,0) vs time.Unix(0,n); math.Round on the fractional branch; RFC3339Nano fallback; empty -> default",
			"since/until of openLog: the resolved range reaches the daemon as the same instants",
			"FE-BOOL IsInstant (a range query whose ends coincide gets no look-back)",
			"PV-ROLE APIFlag.Set stores its argument verbatim; PV-GUARD each of since/start/end is parsed under conditions on that flag only",
			"PV-GUARD --since: the parsed duration is not compared with a constant to choose a default",
			"PV-API integer spellings via strconv.ParseInt only; --since only from model.ParseDuration",
			"PV-ROLE EvalParams are not modified between the CLI and the evaluators",
			"PV-ROLE now = time.Now() in the run function",
			"PV-VERBATIM the resolved bounds reach the storage unadjusted; parseDuration parses the flag's own text (no trimming)",
		},
		NotDecided: []string{"float rounding of fractional seconds beyond 'rounded, not truncated'", "model.ParseDuration semantics"},
		Rules: func(r *Run) {
			ruleDefaultOnlyWhenAbsent(r)
			ruleTimeParams(r)
			ruleOpenLog(r) // the resolved range is what the daemon is asked for: since/until spell the same instants
			ruleIsInstant(r)
			ruleAPIFlagVerbatim(r)
			ruleTimeRangeIndependentFlags(r)
			ruleSinceZeroIsAValue(r)
			ruleTimestampIntegerSpellings(r)
			ruleSinceOnlyPromDuration(r)
			ruleEvalParamsUnmodified(r)
			ruleNowAtRunTime(r)
			ruleLogBoundsVerbatim(r)
			ruleDurationTextVerbatim(r)
		},
	})
}
