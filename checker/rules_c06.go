package main

import (
	"go/constant"
	"go/token"
	"go/types"
	"sort"
	"strings"

	"golang.org/x/tools/go/ssa"
)

const jsonexprPkg = "internal/logql/logqlengine/jsonexpr"
const jxPath = "github.com/go-faster/jx"

func enumConstantsOf(p *Program, pkgPath, typeName string) (map[string]constant.Value, types.Type) {
	pkg := p.ByPath[pkgPath]
	if pkg == nil {
		return nil, nil
	}
	tn, ok := pkg.Types.Scope().Lookup(typeName).(*types.TypeName)
	if !ok {
		return nil, nil
	}
	return enumConstants(tn.Type()), tn.Type()
}

// ruleErrorPathKeepsLine: a stage that may rewrite the line returns its input
// line, and flags __error__, whenever its parser/template failed.
func ruleErrorPathKeepsLine(r *Run, types_ []string) {
	p := r.P
	eng := modPath + "/" + enginePkg
	for _, tn := range types_ {
		fn := p.Method(enginePkg, tn, "Process")
		o := r.Ob("LP-ERRPATH", "logqlengine."+tn+".Process error path", "when the stage fails on a line it flags __error__ and returns the line unchanged and kept; only a successful run may replace the line")
		if fn == nil {
			o.Fail("-", "method not found")
			continue
		}
		line := fn.Params[2]
		w := &feWalker{Fn: fn}
		ends := w.Run()
		// the body may have moved into a helper the method delegates to: when no failing path is
		// visible in the method itself, walk it with its same-package helpers followed
		hasFail := func(es []*feEnd) bool {
			for _, e := range es {
				for _, f := range e.State.free {
					if x, nn, ok := nilCheck(f.Cond); ok && isErrorType(x.Type()) && nn == f.Truth {
						return true
					}
				}
			}
			return false
		}
		if !hasFail(ends) {
			w = &feWalker{Fn: fn, Inline: inlineHelpers(fn), MaxPath: 20000}
			ends = w.Run()
		}
		bad := false
		nErr := 0
		for _, e := range ends {
			if e.Cut || len(e.Results) != 2 {
				continue
			}
			// does the path have a non-nil error?
			failed := false
			var ev ssa.Value
			for _, f := range e.State.free {
				if x, nn, ok := nilCheck(f.Cond); ok && isErrorType(x.Type()) && nn == f.Truth {
					failed = true
					ev = x
				}
			}
			setErr := false
			for _, c := range e.State.calls {
				if callIs(c.Call, eng, "(*LabelSet).SetError") {
					setErr = true
					if failed && len(c.Args) >= 3 && c.Args[2].V != ev {
						if _, isPhi := c.Call.Common().Args[2].(*ssa.Phi); !isPhi {
							bad = true
							o.Fail(r.pos(c.Call.Pos()), "SetError is given %s, not the error that occurred", describe(c.Args[2].V, 0))
						}
					}
				}
			}
			if failed {
				nErr++
				if !setErr {
					bad = true
					o.Fail(r.pos(e.Term.Pos()), "the stage failed but __error__ is not set on this path")
				}
				if e.Results[0].V != ssa.Value(line) && unspill(e.Results[0].V) != ssa.Value(line) {
					bad = true
					o.Fail(r.pos(e.Term.Pos()), "the stage failed but returns %s instead of the unchanged input line", describe(e.Results[0].V, 0))
				}
				if !(e.Results[1].Known && constant.BoolVal(e.Results[1].C)) {
					bad = true
					o.Fail(r.pos(e.Term.Pos()), "the stage failed and drops the line")
				}
			} else if setErr {
				bad = true
				o.Fail(r.pos(e.Term.Pos()), "__error__ is flagged on a path without an error")
			}
		}
		if nErr == 0 && !bad {
			o.Undecide(r.pos(fn.Pos()), "no failing path found")
			continue
		}
		if !bad {
			o.OK("%d failing path(s): SetError(err) and (line, true)", nErr).At(r.pos(fn.Pos()))
		}
	}
}

// ruleExtractorErrors: parse errors inside the extraction helpers reach the
// Process method, which hands them to SetError.
func ruleExtractorErrors(r *Run) {
	p := r.P
	for _, f := range []struct{ recv, name string }{{"", "extractExprs"}, {"", "extractSome"}, {"", "extractAll"}, {"", "parseValue"}, {"", "parsePackEntry"},
		{"*LogfmtExtractor", "extractSome"}, {"*LogfmtExtractor", "extractAll"}} {
		fn := resolveFn(p, enginePkg, f.recv, f.name)
		if fn == nil && f.recv == "" {
			fn = jsonExtractRole(p, f.name)
		}
		if fn == nil {
			r.Ob("ANCHOR", "logqlengine."+f.name, "anchor resolves").Fail("-", "function not found")
			continue
		}
		ruleErrProp(r, fn, errPropOpts{})
		for _, a := range fn.AnonFuncs {
			res := a.Signature.Results()
			if res.Len() > 0 && isErrorType(res.At(res.Len()-1).Type()) {
				ruleErrProp(r, a, errPropOpts{})
			}
		}
	}
	seenJE := map[*ssa.Function]bool{}
	for _, m := range []string{"walk", "walkObj", "walkArr", "tryMatchRaw"} {
		fn := jsonexprRole(p, m)
		if fn != nil && seenJE[fn] {
			continue // inlined into a function already covered
		}
		seenJE[fn] = true
		if fn == nil {
			r.Ob("ANCHOR", "jsonexpr.extractor."+m, "anchor resolves").Fail("-", "method not found")
			continue
		}
		ruleErrProp(r, fn, errPropOpts{})
		for _, a := range fn.AnonFuncs {
			ruleErrProp(r, a, errPropOpts{})
			for _, a2 := range a.AnonFuncs {
				ruleErrProp(r, a2, errPropOpts{})
			}
		}
	}
	for _, tn := range []string{"JSONExtractor", "LogfmtExtractor", "UnpackExtractor", "LineFormat"} {
		if fn := p.Method(enginePkg, tn, "Process"); fn != nil {
			ruleErrProp(r, fn, errPropOpts{SinkCalls: []string{"(*internal/logql/logqlengine.LabelSet).SetError"}})
		}
	}
	// logfmt: the decoder's error is what the helpers return (a malformed tail must be reported)
	for _, m := range []string{"extractSome", "extractAll"} {
		fn := p.Method(enginePkg, "LogfmtExtractor", m)
		o := r.Ob("ERR-LOOP", "logqlengine.(*LogfmtExtractor)."+m, "after scanning the whole line the decoder's Err() is returned on every path: a malformed remainder is never silently accepted")
		if fn == nil {
			o.Fail("-", "method not found")
			continue
		}
		bad := false
		for _, ret := range returnsOf(fn) {
			for _, lv := range phiLeaves(ret.Results[0]) {
				c, ok := lv.(*ssa.Call)
				if !ok || !callIs(c, "github.com/go-logfmt/logfmt", "(*Decoder).Err") {
					bad = true
					o.Fail(r.pos(ret.Pos()), "returns %s instead of d.Err()", describe(lv, 0))
				}
			}
		}
		// both scan loops exist and are not left early
		loops := callLoops(fn, func(c *ssa.Call) bool {
			callee := staticCallee(c)
			return callee != nil && (cname(callee) == "ScanRecord" || cname(callee) == "ScanKeyval")
		})
		if len(loops) != 2 {
			bad = true
			o.Fail(r.pos(fn.Pos()), "expected the ScanRecord/ScanKeyval loop pair, found %d scan loops", len(loops))
		}
		for _, l := range loops {
			for b := range l.Blocks {
				for _, s := range b.Succs {
					if !l.Blocks[s] && !(b == l.Header && s == l.Done) {
						bad = true
						o.Fail(r.pos(termPos(b)), "a scan loop is left before the line is exhausted")
					}
				}
			}
		}
		if !bad {
			o.OK("for ScanRecord { for ScanKeyval {..} }; return d.Err()").At(r.pos(fn.Pos()))
		}
	}
}

// jsonExtractRole finds the JSON extraction helper playing the role of the baseline function
// `name` when it is no longer a package-level function of that name: the helpers are the
// functions the JSON stage's Process reaches; the path form hands the line to jsonexpr.Extract,
// the field-list form walks the object with a membership test on the key, the plain form walks
// it without one.
func jsonExtractRole(p *Program, name string) *ssa.Function {
	proc := p.Method(enginePkg, "JSONExtractor", "Process")
	if proc == nil {
		return nil
	}
	var found []*ssa.Function
	for _, g := range funcGroup(proc) {
		if g == proc || g.Parent() != nil {
			continue
		}
		callsExtract, walks, lookup := false, false, false
		for _, c := range callsIn(g) {
			if callee := staticCallee(c); callee != nil && callee.Pkg != nil && strings.HasSuffix(callee.Pkg.Pkg.Path(), "/"+jsonexprPkg) && cname(callee) == "Extract" {
				callsExtract = true
			}
			if callIs(c, jxPath, "(*Decoder).ObjBytes") {
				walks = true
			}
		}
		for _, a := range g.AnonFuncs {
			allInstrs(a, func(in ssa.Instruction) {
				if l, ok := in.(*ssa.Lookup); ok && l.CommaOk {
					lookup = true
				}
			})
		}
		role := ""
		switch {
		case callsExtract:
			role = "extractExprs"
		case walks && lookup:
			role = "extractSome"
		case walks:
			role = "extractAll"
		}
		if role == name {
			found = append(found, g)
		}
	}
	if len(found) == 1 {
		return found[0]
	}
	return nil
}

// ruleLabelIdentity: extracted fields are stored under the label they belong to.
func ruleLabelIdentity(r *Run) {
	p := r.P
	eng := modPath + "/" + enginePkg
	setCalls := func(fn *ssa.Function) []ssa.CallInstruction {
		var out []ssa.CallInstruction
		var scan func(f *ssa.Function)
		scan = func(f *ssa.Function) {
			for _, c := range callsIn(f) {
				if callIs(c, eng, "(*LabelSet).Set") || isSetStrWrapper(staticCallee(c), eng) {
					out = append(out, c)
				}
			}
			for _, a := range f.AnonFuncs {
				scan(a)
			}
		}
		scan(fn)
		return out
	}
	// the text a Set call stores: the argument of the value constructor (Set(l, NewValueStr(s))), or the
	// string handed to a wrapper that builds the value itself (setStr(l, s))
	setInner := func(c ssa.CallInstruction) (ssa.Value, bool) {
		args := c.Common().Args
		if len(args) < 3 {
			return nil, false
		}
		if isSetStrWrapper(staticCallee(c), eng) {
			return args[2], true
		}
		vc, ok := args[2].(*ssa.Call)
		if !ok || len(vc.Call.Args) != 1 {
			return nil, false
		}
		return vc.Call.Args[0], true
	}
	// json extractSome: membership polarity, same key
	{
		fn := p.Func(enginePkg, "extractSome")
		if fn == nil {
			fn = jsonExtractRole(p, "extractSome")
		}
		o := r.Ob("PV-PAIR", "logqlengine.extractSome (json)", "with a field list exactly the listed keys are exposed, each under its own name; other keys are skipped")
		if fn == nil || len(fn.AnonFuncs) == 0 {
			o.Fail("-", "function/closure not found")
		} else {
			cl := fn.AnonFuncs[0]
			var lk *ssa.Lookup
			allInstrs(cl, func(in ssa.Instruction) {
				if l, ok := in.(*ssa.Lookup); ok && l.CommaOk {
					lk = l
				}
			})
			sets := setCalls(cl)
			var skip ssa.CallInstruction
			for _, c := range callsIn(cl) {
				if callIs(c, jxPath, "(*Decoder).Skip") {
					skip = c
				}
			}
			if lk == nil || len(sets) != 1 || skip == nil {
				o.Fail(r.pos(cl.Pos()), "membership lookup=%v Set calls=%d Skip call=%v", lk != nil, len(sets), skip != nil)
			} else {
				var okv ssa.Value
				for _, ref := range *lk.Referrers() {
					if e, ok := ref.(*ssa.Extract); ok && e.Index == 1 {
						okv = e
					}
				}
				bad := false
				if b, known := knownBoolAt(skip.Block(), okv); !known || b {
					bad = true
					o.Fail(r.pos(skip.Pos()), "a key is skipped although it is in the field list (or the test is missing)")
				}
				if b, known := knownBoolAt(sets[0].Block(), okv); !known || !b {
					bad = true
					o.Fail(r.pos(sets[0].Pos()), "a key is exposed although it is not in the field list")
				}
				keyParam := cl.Params[1]
				if stripConv(lk.Index) != ssa.Value(keyParam) || stripConv(sets[0].Common().Args[1]) != ssa.Value(keyParam) {
					bad = true
					o.Fail(r.pos(sets[0].Pos()), "the field is looked up / stored under %s / %s, not under its own key", describe(lk.Index, 0), describe(sets[0].Common().Args[1], 0))
				}
				if c, idx, ok := extractOf(sets[0].Common().Args[2]); !ok || idx != 0 || !callIs(c, eng, "parseValue") {
					bad = true
					o.Fail(r.pos(sets[0].Pos()), "the stored value is %s, not the parsed field value", describe(sets[0].Common().Args[2], 0))
				}
				if !bad {
					o.OK("!ok -> Skip; ok -> Set(Label(key), parseValue(d))").At(r.pos(cl.Pos()))
				}
			}
		}
	}
	// logfmt
	for _, m := range []string{"extractSome", "extractAll"} {
		fn := p.Method(enginePkg, "LogfmtExtractor", m)
		o := r.Ob("PV-PAIR", "logqlengine.(*LogfmtExtractor)."+m+" labels", "each key=value pair is exposed under the label requested for that key (all keys when no list is given) with exactly its value")
		if fn == nil {
			o.Fail("-", "method not found")
			continue
		}
		sets := setCalls(fn)
		if len(sets) != 1 {
			o.Fail(r.pos(fn.Pos()), "expected one Set call, found %d", len(sets))
			continue
		}
		bad := false
		val := sets[0].Common().Args[2]
		inner, ok := setInner(sets[0])
		if !ok || !strings.Contains(describe(inner, 0), "(*github.com/go-logfmt/logfmt.Decoder).Value") {
			bad = true
			o.Fail(r.pos(sets[0].Pos()), "the stored value is %s, not the pair's value", describe(val, 0))
		}
		lbl := sets[0].Common().Args[1]
		if m == "extractAll" {
			if !strings.Contains(describe(lbl, 0), "(*github.com/go-logfmt/logfmt.Decoder).Key") {
				bad = true
				o.Fail(r.pos(sets[0].Pos()), "the label is %s, not the pair's key", describe(lbl, 0))
			}
		} else {
			e, ok := lbl.(*ssa.Extract)
			var lk *ssa.Lookup
			if ok {
				lk, _ = e.Tuple.(*ssa.Lookup)
			}
			if lk == nil || !strings.Contains(describe(lk.Index, 0), "(*github.com/go-logfmt/logfmt.Decoder).Key") {
				bad = true
				o.Fail(r.pos(sets[0].Pos()), "the label is %s, not the entry of the requested-keys table for the pair's key", describe(lbl, 0))
			} else {
				var okv ssa.Value
				for _, ref := range *lk.Referrers() {
					if e2, ok := ref.(*ssa.Extract); ok && e2.Index == 1 {
						okv = e2
					}
				}
				if b, known := knownBoolAt(sets[0].Block(), okv); !known || !b {
					bad = true
					o.Fail(r.pos(sets[0].Pos()), "a pair is exposed although its key was not requested")
				}
			}
		}
		if !bad {
			o.OK("Set(label for d.Key(), d.Value())").At(r.pos(fn.Pos()))
		}
	}
	// regexp: capture i -> mapping[i]
	{
		fn := p.Method(enginePkg, "RegexpExtractor", "Process")
		o := r.Ob("PV-PAIR", "logqlengine.(*RegexpExtractor).Process labels", "capture group i of the match is exposed under the label mapped to group i")
		if fn == nil {
			o.Fail("-", "method not found")
		} else {
			sets := setCalls(fn)
			var loop *rangeLoop
			for _, l := range rangeIndexLoops(fn) {
				if c, ok := l.X.(*ssa.Call); ok && callIs(c, "regexp", "(*Regexp).FindStringSubmatch") {
					loop = l
					if c.Call.Args[1] != ssa.Value(fn.Params[2]) {
						o.Fail(r.pos(c.Pos()), "the regexp is matched against %s, not the line", describe(c.Call.Args[1], 0))
					}
				}
			}
			if loop == nil || len(sets) != 1 {
				o.Fail(r.pos(fn.Pos()), "range over FindStringSubmatch(line)=%v, Set calls=%d", loop != nil, len(sets))
			} else {
				bad := false
				lbl := sets[0].Common().Args[1]
				e, _ := lbl.(*ssa.Extract)
				var lk *ssa.Lookup
				if e != nil {
					lk, _ = e.Tuple.(*ssa.Lookup)
				}
				if lk == nil || lk.Index != loop.Index {
					bad = true
					o.Fail(r.pos(sets[0].Pos()), "the label is %s, not mapping[index of the capture]", describe(lbl, 0))
				}
				inner, ok := setInner(sets[0])
				if !ok {
					bad = true
					o.Fail(r.pos(sets[0].Pos()), "the value is %s, not the ranged capture", describe(sets[0].Common().Args[2], 0))
				} else if lu, ok := inner.(*ssa.UnOp); !ok || !isIndexOf(lu.X, loop) {
					bad = true
					o.Fail(r.pos(sets[0].Pos()), "the value is %s, not the ranged capture", describe(inner, 0))
				}
				// every named capture is exposed: inside the loop the Set call is guarded by the
				// presence of a mapping for the group and by nothing else (an empty capture is a value)
				for _, f := range factsAt(sets[0].Block()) {
					in, isInstr := f.Cond.(ssa.Instruction)
					if !isInstr || !loop.Blocks[in.Block()] || in.Block() == loop.Header {
						continue // outside the loop, or the loop's own bound test
					}
					if ex, ok := f.Cond.(*ssa.Extract); ok && ex.Index == 1 && ex.Tuple == ssa.Value(lk) && f.Truth {
						continue
					}
					bad = true
					o.Fail(r.pos(sets[0].Pos()), "a capture is exposed only under the additional condition %s == %v: some named groups of a matching line are silently skipped", describe(f.Cond, 1), f.Truth)
				}
				if !bad && o.Status != Violated {
					o.OK("Set(mapping[i], match_i) for every mapped group").At(r.pos(fn.Pos()))
				}
			}
		}
	}
	// unpack: "_entry"
	{
		fn := p.Func(enginePkg, "parsePackEntry")
		o := r.Ob("PV-CONST", "logqlengine.parsePackEntry", "the string field _entry becomes the line; every other string field becomes a label of its own name; non-string fields are skipped")
		cl, clRecv := unpackFieldHandler(fn)
		if fn == nil || cl == nil {
			o.Fail("-", "function/closure not found")
		} else {
			keyParam := cl.Params[len(cl.Params)-1]
			for _, prm := range cl.Params {
				if sl, ok := prm.Type().Underlying().(*types.Slice); ok {
					if bt, ok := sl.Elem().Underlying().(*types.Basic); ok && bt.Kind() == types.Uint8 {
						keyParam = prm // the key is the []byte parameter, wherever it stands
					}
				}
			}
			bad := false
			var cmp *ssa.BinOp
			allInstrs(cl, func(in ssa.Instruction) {
				if b, ok := in.(*ssa.BinOp); ok {
					if s, ok := constStr(b.Y); ok && s == "_entry" {
						cmp = b
					}
					if s, ok := constStr(b.X); ok && s == "_entry" {
						cmp = b
					}
				}
			})
			if cmp == nil {
				bad = true
				o.Fail(r.pos(cl.Pos()), "the key is never compared with the constant \"_entry\"")
			} else {
				// under cmp true: store parsed into the captured line; under false: Set(Label(key), parsed)
				sets := setCalls(cl)
				if len(sets) != 1 {
					bad = true
					o.Fail(r.pos(cl.Pos()), "expected one Set call, found %d", len(sets))
				} else {
					if b, known := knownBoolAt(sets[0].Block(), cmp); !known || b {
						bad = true
						o.Fail(r.pos(sets[0].Pos()), "_entry itself is exposed as a label, or the test is missing")
					}
					if stripConv(sets[0].Common().Args[1]) != ssa.Value(keyParam) {
						bad = true
						o.Fail(r.pos(sets[0].Pos()), "the label is %s, not the field's key", describe(sets[0].Common().Args[1], 0))
					}
				}
				lineStored := false
				allInstrs(cl, func(in ssa.Instruction) {
					if st, ok := in.(*ssa.Store); ok {
						_, isFree := st.Addr.(*ssa.FreeVar)
						if prm, ok := st.Addr.(*ssa.Parameter); ok && prm.Parent() == cl && isStringType(deref(prm.Type())) {
							isFree = true // the line's variable is handed to the handler by address
						}
						if !isFree && clRecv {
							// the handler is a method of a state struct: the line is a field of its receiver
							if _, base, ok := fieldNameOf(st.Addr); ok && base == ssa.Value(cl.Params[0]) && isStringType(st.Val.Type()) {
								isFree = true
							}
						}
						if isFree {
							if b, known := knownBoolAt(st.Block(), cmp); known && b {
								if c, idx, ok := extractOf(st.Val); ok && idx == 0 && callIs(c, jxPath, "(*Decoder).Str") {
									lineStored = true
								}
							}
						}
					}
				})
				if !lineStored {
					bad = true
					o.Fail(r.pos(cl.Pos()), "the value of _entry is not stored as the new line")
				}
			}
			if !bad {
				o.OK("key == \"_entry\" -> line = value; otherwise Set(Label(key), value)").At(r.pos(cl.Pos()))
			}
		}
	}
}

// jsonexprRole resolves the parts of the JSON path walker by what they do, when the baseline
// names are gone (helpers inlined or renamed together):
//
//	matchLiteral: the extractor method (string) that calls the extract callback
//	tryMatchRaw:  the extractor method (*jx.Decoder) error that calls the extract callback
//	walkArr/Obj:  the function that calls d.Arr / d.Obj with the per-element callback
func jsonexprRole(p *Program, name string) *ssa.Function {
	if fn := p.Method(jsonexprPkg, "extractor", name); fn != nil {
		return fn
	}
	walk := p.Method(jsonexprPkg, "extractor", "walk")
	if walk == nil {
		return nil
	}
	callsExtract := func(f *ssa.Function) bool {
		for _, c := range callsIn(f) {
			if fl, _, ok := loadOfField(c.Common().Value); ok && fl == "extract" {
				return true
			}
		}
		return false
	}
	var found []*ssa.Function
	for _, g := range funcGroup(walk) {
		if g.Parent() != nil || g.Signature.Recv() == nil {
			continue
		}
		switch name {
		case "matchLiteral", "tryMatchRaw":
			if g == walk || !callsExtract(g) || len(g.Params) != 2 {
				continue
			}
			isStr := isStringType(g.Params[1].Type())
			if (name == "matchLiteral") == isStr {
				found = append(found, g)
			}
		case "walkArr", "walkObj":
			want := map[string]string{"walkArr": "Arr", "walkObj": "Obj"}[name]
			for _, c := range callsIn(g) {
				if callIs(c, jxPath, "(*Decoder)."+want) {
					found = append(found, g)
				}
			}
		}
	}
	if len(found) == 1 {
		return found[0]
	}
	return nil
}

// ruleJSONLeaves: JSON value kinds -> what is exposed.
func ruleJSONLeaves(r *Run) {
	p := r.P
	consts, T := enumConstantsOf(p, jxPath, "Type")
	if consts == nil {
		r.Ob("ANCHOR", "jx.Type", "reference enum resolves").Fail("-", "github.com/go-faster/jx.Type not loaded")
		return
	}
	// jsonexpr.walk
	{
		fn := p.Method(jsonexprPkg, "extractor", "walk")
		if fn == nil {
			r.Ob("ANCHOR", "jsonexpr.(*extractor).walk", "anchor resolves").Fail("-", "not found")
		} else {
			tag := pickTag(fn, T, consts["String"])
			want := map[string]string{"String": "match:Str", "Number": "match:Num", "Null": "match:\"\"", "Bool": "match:FormatBool(Bool)", "Array": "walkArr", "Object": "walkObj"}
			if tag == nil {
				r.Ob("CH-MAP", "jsonexpr.(*extractor).walk", "dispatch on the JSON token kind").Undecide(r.pos(fn.Pos()), "no dispatch on d.Next()")
			} else {
				for _, cr := range casesOf(fn, tag, consts, nil, nil) {
					w, listed := want[cr.Const]
					if !listed {
						continue
					}
					o := r.Ob("CH-MAP", "jsonexpr.(*extractor).walk["+cr.Const+"]", "a JSON path expression exposes a string as its text, a number as its literal text (no float round trip), null as \"\", a bool as true/false; arrays and objects are walked")
					set := map[string]bool{}
					for _, e := range cr.Ends {
						if isErr, known := endReturnsError(e); known && isErr {
							continue
						}
						got := "none"
						mlRole := jsonexprRole(p, "matchLiteral")
						for _, c := range e.State.calls {
							callee := staticCallee(c.Call)
							if callee == nil {
								continue
							}
							// descents by what they do: a helper of that name, or d.Arr / d.Obj itself
							switch {
							case callIs(c.Call, jxPath, "(*Decoder).Arr"):
								got = "walkArr"
							case callIs(c.Call, jxPath, "(*Decoder).Obj"):
								got = "walkObj"
							}
							role := cname(callee)
							if mlRole != nil && callee == mlRole {
								role = "matchLiteral"
							}
							switch role {
							case "walkArr", "walkObj":
								got = cname(callee)
							case "matchLiteral":
								arg := c.Call.Common().Args[1]
								if len(c.Args) > 1 && c.Args[1].V != nil {
									arg = c.Args[1].V
								}
								got = "match:" + leafSource(arg)
							}
						}
						set[got] = true
					}
					if g := joinSet(set); g == w {
						o.OK("%s", g).At(r.pos(fn.Pos()))
					} else {
						o.Fail(r.pos(fn.Pos()), "a JSON %s is handled as %q, expected %q", cr.Const, g, w)
					}
				}
			}
		}
	}
	// parseValue: ok flag of recursive calls guards the use of the element
	{
		fn := p.Func(enginePkg, "parseValue")
		o := r.Ob("PV-OKUSE", "logqlengine.parseValue nested elements", "an element of an array/object is used only when the recursive parse reported one (null elements are skipped, never copied from a zero value)")
		if fn == nil {
			o.Fail("-", "function not found")
			return
		}
		bad := false
		n := 0
		// the element parses: recursive calls made from the function's literals or from the helpers
		// it is split into (anything in its group but its own top-level body)
		var hosts []*ssa.Function
		for _, g := range funcGroup(fn) {
			if g != fn {
				hosts = append(hosts, g)
				for _, a2 := range g.AnonFuncs {
					hosts = append(hosts, a2)
					hosts = append(hosts, a2.AnonFuncs...)
				}
			}
		}
		seenHost := map[*ssa.Function]bool{}
		for _, a := range hosts {
			if seenHost[a] {
				continue
			}
			seenHost[a] = true
			for _, c := range callsIn(a) {
				call, ok := c.(*ssa.Call)
				if !ok || !callIs(call, modPath+"/"+enginePkg, "parseValue") {
					continue
				}
				n++
				var elem, okv ssa.Value
				for _, ref := range *call.Referrers() {
					if e, ok := ref.(*ssa.Extract); ok {
						switch e.Index {
						case 0:
							elem = e
						case 1:
							okv = e
						}
					}
				}
				if elem == nil {
					continue
				}
				for _, ref := range *elem.Referrers() {
					if _, ok := ref.(*ssa.DebugRef); ok {
						continue
					}
					guarded := false
					if okv != nil {
						if b, known := knownBoolAt(ref.Block(), okv); known && b {
							guarded = true
						}
					}
					// spilled into a local first: check the local's uses
					if st, ok := ref.(*ssa.Store); ok {
						if al, ok := st.Addr.(*ssa.Alloc); ok {
							guarded = true
							for _, r2 := range *al.Referrers() {
								if r2 == ref {
									continue
								}
								if _, ok := r2.(*ssa.DebugRef); ok {
									continue
								}
								g2 := false
								if okv != nil {
									if b, known := knownBoolAt(r2.Block(), okv); known && b {
										g2 = true
									}
								}
								if !g2 {
									guarded = false
								}
							}
						}
					}
					if !guarded {
						bad = true
						o.Fail(r.pos(ref.Pos()), "the element is used without checking the ok result of parseValue: a null element yields a zero pcommon.Value (nil dereference in CopyTo)")
					}
				}
			}
		}
		if n < 1 {
			bad = true
			o.Fail(r.pos(fn.Pos()), "found %d recursive element parses, floor 1", n)
		}
		if !bad {
			o.OK("%d recursive parses, elements used only under ok", n).At(r.pos(fn.Pos()))
		}
	}
}

func leafSource(v ssa.Value) string {
	v0 := v
	if s, ok := constStr(v); ok {
		return "\"" + s + "\""
	}
	if cv, ok := v.(*ssa.Convert); ok {
		v = cv.X
	}
	if cv, ok := v.(*ssa.ChangeType); ok {
		v = cv.X
	}
	if c, _, ok := extractOf(v); ok {
		if callee := staticCallee(c); callee != nil {
			return cname(callee)
		}
	}
	if c, ok := v.(*ssa.Call); ok {
		if callee := staticCallee(c); callee != nil {
			inner := ""
			if len(c.Call.Args) > 0 {
				inner = leafSource(c.Call.Args[0])
			}
			return cname(callee) + "(" + inner + ")"
		}
	}
	return describe(v0, 0)
}

// ruleJSONPathWalk: push/pop pairing of the current path.
func ruleJSONPathWalk(r *Run) {
	p := r.P
	for _, m := range []string{"walkObj", "walkArr"} {
		fn := jsonexprRole(p, m)
		o := r.Ob("PV-ORDER", "jsonexpr.(*extractor)."+m, "the current path is extended by the key/index before the element is walked and restored afterwards; raw matches are tried before descending")
		if fn == nil || len(fn.AnonFuncs) == 0 {
			o.Fail("-", "method/closure not found")
			continue
		}
		// the descent: d.Arr / d.Obj with the per-element callback
		var descent ssa.CallInstruction
		var cbRoot *ssa.Function
		for _, c := range callsIn(fn) {
			if callIs(c, jxPath, "(*Decoder)."+map[string]string{"walkArr": "Arr", "walkObj": "Obj"}[m]) {
				descent = c
				for _, a := range c.Common().Args {
					if mc, ok := a.(*ssa.MakeClosure); ok {
						cbRoot, _ = mc.Fn.(*ssa.Function)
					}
				}
			}
		}
		inCallback := func(g *ssa.Function) bool {
			if cbRoot == nil {
				return true
			}
			for _, x := range funcGroup(cbRoot) {
				if x == g {
					return true
				}
			}
			return false
		}
		// push / walk / pop may sit in the callback itself or in a helper it calls
		var cl *ssa.Function
		var walk ssa.CallInstruction
		var push, pop *ssa.Store
		for _, gf := range funcGroup(fn) {
			if gf == fn || !inCallback(gf) {
				continue
			}
			var w2 ssa.CallInstruction
			var pu, po *ssa.Store
			for _, c := range callsIn(gf) {
				if callIs(c, modPath+"/"+jsonexprPkg, "(*extractor).walk") {
					w2 = c
				}
			}
			allInstrs(gf, func(in ssa.Instruction) {
				st, ok := in.(*ssa.Store)
				if !ok {
					return
				}
				if n, _, ok := fieldNameOf(st.Addr); !ok || n != "current" {
					return
				}
				if c, ok := st.Val.(*ssa.Call); ok {
					if bi, ok := c.Call.Value.(*ssa.Builtin); ok && bi.Name() == "append" {
						pu = st
					}
				}
				if _, ok := st.Val.(*ssa.Slice); ok {
					po = st
				}
			})
			if w2 != nil && (pu != nil || po != nil) {
				cl, walk, push, pop = gf, w2, pu, po
			}
		}
		if cl == nil {
			cl = fn.AnonFuncs[0]
			if cbRoot != nil {
				cl = cbRoot
			}
		}
		bad := false
		if walk == nil || push == nil || pop == nil {
			bad = true
			o.Fail(r.pos(cl.Pos()), "push=%v walk=%v pop=%v", push != nil, walk != nil, pop != nil)
		} else {
			if !instrDominates(push, walk) || !instrDominates(walk, pop) {
				bad = true
				o.Fail(r.pos(walk.Pos()), "push, walk, pop are not in this order on every path")
			}
			// pop on the success edge: every success return is dominated by pop
			for _, ret := range returnsOf(cl) {
				if isNilConst(ret.Results[0]) && !instrDominates(pop, ret) {
					bad = true
					o.Fail(r.pos(ret.Pos()), "the callback succeeds without restoring the current path")
				}
			}
			// pop removes exactly one element: slice [:len-1]
			sl := pop.Val.(*ssa.Slice)
			okPop := false
			if b, ok := sl.High.(*ssa.BinOp); ok && b.Op.String() == "-" {
				if one, ok := constInt(b.Y); ok && one == 1 {
					okPop = true
				}
			}
			if !okPop || sl.Low != nil {
				bad = true
				o.Fail(r.pos(pop.Pos()), "the path is restored with %s, not current[:len(current)-1]", describe(sl, 0))
			}
		}
		if m == "walkArr" && !bad {
			// n++ once per element
			incs := 0
			for _, gf := range funcGroup(fn) {
				if !inCallback(gf) {
					continue
				}
				allInstrs(gf, func(in ssa.Instruction) {
					if st, ok := in.(*ssa.Store); ok {
						if _, ok := st.Addr.(*ssa.FreeVar); ok {
							if b, ok := st.Val.(*ssa.BinOp); ok && b.Op.String() == "+" {
								if one, ok := constInt(b.Y); ok && one == 1 {
									incs++
								}
							}
						}
					}
				})
			}
			if incs != 1 {
				bad = true
				o.Fail(r.pos(cl.Pos()), "the element index is incremented %d times per element", incs)
			}
		}
		var raw ssa.CallInstruction
		rawRole := jsonexprRole(p, "tryMatchRaw")
		for _, c := range callsIn(fn) {
			if callIs(c, modPath+"/"+jsonexprPkg, "(*extractor).tryMatchRaw") || (rawRole != nil && staticCallee(c) == rawRole) {
				// the raw match that belongs to this descent (the same arm of the dispatch)
				if descent == nil || instrDominates(c, descent) {
					raw = c
				}
			}
		}
		if raw == nil {
			bad = true
			o.Fail(r.pos(fn.Pos()), "objects/arrays that are themselves selected are never exposed (tryMatchRaw missing)")
		}
		if !bad {
			o.OK("tryMatchRaw; per element: push -> walk -> pop").At(r.pos(fn.Pos()))
		}
	}
	// matchLiteral / tryMatchRaw: extract only when current equals the path
	for _, m := range []string{"matchLiteral", "tryMatchRaw"} {
		fn := jsonexprRole(p, m)
		o := r.Ob("FE-BOOL", "jsonexpr.(*extractor)."+m, "a value is exposed under a label only if the current path equals that label's path")
		if fn == nil {
			o.Fail("-", "method not found")
			continue
		}
		var eq *ssa.Call
		var ext ssa.CallInstruction
		for _, c := range callsIn(fn) {
			if call, ok := c.(*ssa.Call); ok && callIs(call, modPath+"/"+jsonexprPkg, "(Path).Equal") {
				eq = call
			}
			if f, _, ok := loadOfField(c.Common().Value); ok && f == "extract" {
				ext = c
			}
		}
		if eq == nil || ext == nil {
			o.Fail(r.pos(fn.Pos()), "Equal test=%v extract call=%v", eq != nil, ext != nil)
			continue
		}
		if b, known := knownBoolAt(ext.Block(), eq); !known || !b {
			o.Fail(r.pos(ext.Pos()), "extract is called on a path where current.Equal(p) is not known to hold")
			continue
		}
		o.OK("extract under current.Equal(p)").At(r.pos(fn.Pos()))
	}
	_ = sort.Strings
}

// ruleStructEquality: an equality method over a slice of structs compares whole elements: it
// delegates to slices.Equal / == on the element, or compares every field of the element type.
func ruleStructEquality(r *Run, rel, recv, method string) {
	p := r.P
	fn := p.Method(rel, recv, method)
	o := r.Ob("PV-WHOLE", shortRel(rel)+"."+recv+"."+method, "equality of "+recv+" values compares every field of every element (no field is left out of the comparison)")
	if fn == nil {
		o.Fail("-", "method not found")
		return
	}
	// element struct type
	var st *types.Struct
	if sl, ok := fn.Params[0].Type().Underlying().(*types.Slice); ok {
		st, _ = sl.Elem().Underlying().(*types.Struct)
	} else {
		st, _ = fn.Params[0].Type().Underlying().(*types.Struct)
	}
	if st == nil {
		o.Undecide(r.pos(fn.Pos()), "receiver is not a struct or a slice of structs")
		return
	}
	for _, gf := range funcGroup(fn) {
		for _, c := range callsIn(gf) {
			if pk, nm := calleePkgName(c); pk == "slices" && (nm == "Equal") {
				o.OK("delegates to slices.Equal").At(r.pos(fn.Pos()))
				return
			}
		}
	}
	compared := map[string]bool{}
	whole := false
	for _, gf := range funcGroup(fn) {
		allInstrs(gf, func(in ssa.Instruction) {
			b, ok := in.(*ssa.BinOp)
			if !ok || (b.Op != token.EQL && b.Op != token.NEQ) {
				return
			}
			if _, isStruct := b.X.Type().Underlying().(*types.Struct); isStruct {
				whole = true
				return
			}
			fx, _, okx := loadOfField(b.X)
			fy, _, oky := loadOfField(b.Y)
			if !okx {
				fx, _, okx = fieldNameOf(b.X)
			}
			if !oky {
				fy, _, oky = fieldNameOf(b.Y)
			}
			if okx && oky && fx == fy {
				compared[fx] = true
			}
		})
	}
	if whole {
		o.OK("compares whole elements with ==").At(r.pos(fn.Pos()))
		return
	}
	var missing []string
	for i := 0; i < st.NumFields(); i++ {
		if !compared[canonName(st.Field(i))] {
			missing = append(missing, st.Field(i).Name())
		}
	}
	if len(missing) > 0 {
		o.Fail(r.pos(fn.Pos()), "field(s) %v of the element type are not compared: values that differ only there are treated as equal", missing)
		return
	}
	o.OK("compares all %d fields", st.NumFields()).At(r.pos(fn.Pos()))
}

// unpackFieldHandler: the function that handles one field of the packed object: the callback
// handed to (*jx.Decoder).ObjBytes by the unpack routine (a function literal, or a method value of
// a state struct; recv says which).
func unpackFieldHandler(fn *ssa.Function) (h *ssa.Function, recv bool) {
	if fn == nil {
		return nil, false
	}
	for _, g := range funcGroup(fn) {
		for _, c := range callsIn(g) {
			if !callIs(c, jxPath, "(*Decoder).ObjBytes") || len(c.Common().Args) < 2 {
				continue
			}
			f, bound := predicateOf(c.Common().Args[1])
			if f != nil && f.Blocks != nil && len(f.Params) >= 2 {
				// a literal that only hands its arguments on to a named function of the package
				if len(f.Blocks) == 1 && bound == nil {
					var only *ssa.Call
					n := 0
					for _, cc := range callsIn(f) {
						if x, ok := cc.(*ssa.Call); ok {
							only = x
							n++
						}
					}
					if n == 1 {
						if g := staticCallee(only); g != nil && g.Blocks != nil && pkgOfFunc(g) == pkgOfFunc(fn) {
							rets := returnsOf(f)
							if len(rets) == 1 && len(rets[0].Results) == 1 && rets[0].Results[0] == ssa.Value(only) {
								return g, false
							}
						}
					}
				}
				return f, bound != nil
			}
		}
	}
	return nil, false
}

// isSetStrWrapper: fn is a LabelSet method (recv, label, text) that does nothing but
// recv.Set(label, NewValueStr(text)): a spelling of Set for string values.
func isSetStrWrapper(fn *ssa.Function, eng string) bool {
	if fn == nil || len(fn.Blocks) != 1 || len(fn.Params) != 3 || recvNamedOf(fn) != "LabelSet" || !isStringType(fn.Params[2].Type()) {
		return false
	}
	n := 0
	ok := false
	for _, c := range callsIn(fn) {
		if pk, nm := calleePkgName(c); strings.HasSuffix(pk, "pdata/pcommon") && nm == "NewValueStr" {
			if len(c.Common().Args) != 1 || c.Common().Args[0] != ssa.Value(fn.Params[2]) {
				return false
			}
			continue
		}
		n++
		if !callIs(c, eng, "(*LabelSet).Set") {
			return false
		}
		a := c.Common().Args
		if len(a) != 3 || a[0] != ssa.Value(fn.Params[0]) || a[1] != ssa.Value(fn.Params[1]) {
			return false
		}
		vc, isCall := a[2].(*ssa.Call)
		if !isCall || len(vc.Call.Args) != 1 || vc.Call.Args[0] != ssa.Value(fn.Params[2]) {
			return false
		}
		ok = true
	}
	return ok && n == 1
}
