package main

func init() {
	register(&PropSpec{
		ID:          "C20",
		Technique:   "finite-case evaluation of the sanitiser per rune class (abstract interpretation over comparison-constant intervals plus non-ASCII representatives), must-pass-through-sanitiser rule at every site where an external key becomes a label",
		Explanation: "Decides, given the induction of DESIGN.md A.2, that KeyToLabel's per-character behaviour table is the one that yields valid names, identity on valid names and idempotence; that the lexer's identifier alphabet is the same ASCII alphabet; and that every Docker label key, record attribute key and JSON key becomes a label only through KeyToLabel, with Docker labels stored under the sanitised key with their own value.",
		Decided: []string{
			"PV-WHOLE (shared with C02): the daemon is not asked to pre-filter containers by label names it does not know; the Docker matcher reads a missing label as \"\"",
			"CH-MAP: lexer.tokens and TokenType.IsFunction: names that spell a function stay usable as label names",
			"FE-CLASS: KeyToLabel fast/slow tables over 29 rune representatives x {first, not first}; exits return the key unchanged / the built label",
			"FE-CLASS: lexerql.IsIdentStartRune / IsIdentRune / IsDigit / IsLetter are exactly the ASCII classes; IsValidLabel applies them to first/rest and rejects the empty name",
			"PV-API: getLabels (Docker labels, after the fixed labels), LabelSet.SetAttrs, json extractAll store under KeyToLabel(key) on every path",
			"the openLog origin rule: the container id never comes from a (sanitised) label",
			"PV-API keyword lookup exact (mixed-case names stay identifiers)",
			"PV-ROLE ParseOptions.AllowDots reaches lexer and parser; FE-CLASS scanner identifier characters (a leading `_` starts an identifier)",
			"PV-WHOLE mergeIter.init pushes the first record of every non-empty stream",
			"PV-ROLE the scanner reads Tokenize's own parameter",
			"openLog context; LP-OFFLOAD provenance: only selector matchers and leading line filters are offloaded",
			"PV-ROLE limit plumbing: the limit the engine applies is the one the caller gave",
			"PF-IDX constant indices into daemon-filled slices are guarded by a length test (a nameless container does not end the query)",
			"UnparenExpr unwraps every level; SetAttrs visits every attribute",
			"every record carries its own container's resource",
		},
		NotDecided: []string{"the empty key (maps to the empty name; recorded as an assumption)", "collisions of two Docker keys that sanitise to the same name", "that the representatives cover every rune: they cover both sides of every comparison constant in the ASCII range and letters/digits/symbols outside it"},
		Rules: func(r *Run) {
			ruleDockerMatch(r)
			ruleFetchContainers(r) // a container is found under the sanitised name of its labels: the daemon is not asked to pre-filter by names it does not know
			ruleKeyToLabel(r)
			ruleIdentPredicates(r)
			ruleSanitiserSites(r)
			ruleTokenTable(r) // names that spell a function (duration_seconds, rate, ...) stay usable as label names: IsFunction is the set the lexer turns back into identifiers
			ruleOpenLog(r)    // a label that sanitises to container_id never supplies the id the log is requested for
			ruleKeywordLookupExact(r)
			ruleParserOptionsReachLexer(r)
			ruleScannerIdentRune(r)
			ruleMergeIter(r) // every selected container contributes its records
			ruleLexerInputVerbatim(r)
			ruleOpenLogContext(r)
			ruleLPOffload(r)
			ruleOffloadProvenance(r) // a label filter after a parser stage is not matched against the container labels
			ruleLimit(r)             // every selected container's records are evaluated: no default limit cuts the merged stream
			ruleConstIndexGuarded(r, []string{dockerlogPkg}, 2)
			ruleParens(r)
			ruleSetAttrsWhole(r)
			ruleRecordOrigin(r)
		},
	})
}
