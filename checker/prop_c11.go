package main

func init() {
	register(&PropSpec{
		ID:          "C11",
		Technique:   "enum-chain extraction (operation -> aggregator / comparator orientation), finite-case tables of the grouping and heap decisions, provenance pairing of group key and group labels, set-expression check of By",
		Explanation: "Decides the structural clauses of vector aggregation for all inputs: the grouper actually used for each clause form, operation->aggregator and top/bottom/sort orientation, group membership by Key() of the grouped labels, one aggregator per group fed once per sample, the three-way heap decision, and that By/Without never widen the visible label set.",
		Decided: []string{
			"PV-RESET (shared with C12): a reported step has its samples written; PV-API: label values are read with AsString",
			"FE-CLASS: AvgAggregator.Apply keeps an infinite average unless the new value is NaN or the opposite infinity (12-case table)",
			"CH-SUM/PV-ROLE: grouper selection in RangeAggregation/VectorAggregation/newSampleIterator; no clause on a vector aggregation = one group, empty label set; by () restricts to nothing",
			"CH-MAP: VectorOp -> Aggregator; bottomk/sort ascending, topk/sort_desc descending; Sample.Less/Greater bodies",
			"PV-PAIR/PV-FIRST/PV-ONCE: keyed by grouped Key(); aggregator created on first sighting only; Apply(s.Data) once per sample; output pairs g.metric with g.agg.Result()",
			"FE-ORD: heap iterator decision table (append / push / replace iff less(s, Min()) / ignore), heap ordered by greater",
			"AF-SET: By builds a fresh by-set = L ∩ receiver's by-set, never returns the receiver; forEach visibility table; PV-FRESH on Without's clone",
			"CH-SIB: every aggregator's Reset stores only zero values (zero value == reset state); batchApplier resets, applies each point once",
			"PV-WHOLE: the assembled result of topk/bottomk/sort is never cut after the per-group selection",
			"PV-FRESH per-step group tables; PV-NUM: no aggregator accumulates the raw square of its input",
			"PV-NUM sum: Apply is state += v, Result the state (no Inf - Inf); PV-INJKEY/MO: the grouping key of the retained labels is injective and independent of map iteration order",
			"CH-MAP token -> vector/range operation tables of the parser",
			"PV-ROLE build recursion: each recursive call is on an operand field of the current node (nested aggregations are not flattened)",
			"PV-CMP comparators are not differences",
			"PV-WHOLE LabelSet.Range visits every label",
			"PV-PAIR a sample carries the label set built for its own entry",
			"PV-ROLE every value vectorAggIterator reports is an aggregator's Result()",
			"PV-VERBATIM grouping labels are the record's labels under their own names",
		},
		NotDecided: []string{"aggregate arithmetic (Welford, NaN handling)", "final ordering for ties", "container/heap correctness"},
		Rules: func(r *Run) {
			ruleStepBuffers(r)
			ruleValueStrGuarded(r)
			ruleAvgInfinityGuard(r)
			ruleGrouperSelection(r)
			ruleVectorOps(r)
			ruleKeyedStores(r)
			ruleForEachVisibility(r)
			ruleFreshMaps(r)
			ruleStepSamplesAccumulate(r, []string{"vectorAggIterator", "vectorAggHeapIterator", "rangeAggIterator"})
			rulePerStepGroupTables(r, []string{"vectorAggIterator", "vectorAggHeapIterator"})
			ruleNoSumOfSquares(r)
			ruleSumAggregatorPlain(r)
			ruleKeyEncoders(r) // one group per distinct retained label combination: the grouping key is injective and order-independent
			ruleMO(r, 10, "aggregatedLabels", "newAggregatedLabels")
			ruleCHParseSites2(r) // the operator a query spells is the operator that is evaluated (sort_desc is not sort)
			ruleBuildDescendsOneLevel(r)
			ruleBuildKeepsTree(r)
			ruleComparatorsNoSubtraction(r, []string{enginePkg, metricPkg})
			ruleLabelSetRangeWhole(r)
			ruleSampleLabelSet(r)
			ruleVectorAggValuesFromAggregator(r)
			ruleAggLabelNamesVerbatim(r)
		},
	})
}
