#!/bin/bash
# usage: cross_seed.sh <seed-dir-name ...> — run ALL property checks against a seeded change (scratch copy); shows which properties/rules see it
for d in "$@"; do
  S=/var/tmp/cs.$$; V=/var/tmp/csv.$$; rm -rf $S $V; mkdir -p $V
  rsync -a --exclude .git /repo/ $S/; cp /verif/known_findings.json /verif/properties.jsonl $V/
  (cd $S && patch -p1 -s < /verif/seeded/$d/patch.diff) || { echo "== $d: PATCH FAILED"; rm -rf $S $V; continue; }
  out=$(VERIF_REPO=$S VERIF_DIR=$V ${VERIFCHECK:-/verif/bin/verifcheck} all --tier quick 2>&1)
  echo "== $d: $(echo "$out" | grep "^VIOLATION" | sed 's/.*property=\(C[0-9]*\).*/\1/' | tr '\n' ' ')"
  echo "$out" | grep -E "^  (VIOLATED|UNDECIDED|ANALYSIS)" | cut -c1-200 | sort -u | head -4
  rm -rf $S $V
done
