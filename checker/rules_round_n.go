package main

import (
	"fmt"
	"go/constant"
	"go/token"
	"go/types"
	"sort"
	"strings"

	"golang.org/x/tools/go/ssa"
)

// Rules added after seed round n/o.

// ruleSetFromRecordOrder (PV-ORDER): the labels of a record are applied in a fixed order - the
// record's well-known fields first, its attribute maps (record, scope, resource: where the
// container's labels live) last - so that a same-named attribute decides the label's value.
func ruleSetFromRecordOrder(r *Run) {
	p := r.P
	eng := modPath + "/" + enginePkg
	sf := p.Method(enginePkg, "LabelSet", "SetFromRecord")
	o := r.Ob("PV-ORDER", "logqlengine.(*LabelSet).SetFromRecord attributes last", "on every path the record's attribute maps are applied after its well-known fields (trace id, span id, severity, body): a container label is never overwritten by a field of the line")
	if sf == nil {
		o.Fail("-", "method not found")
		return
	}
	grp := funcGroup(sf)
	inGrp := map[*ssa.Function]bool{}
	for _, g := range grp {
		inGrp[g] = true
	}
	set := p.Method(enginePkg, "LabelSet", "Set")
	setAttrs := p.Method(enginePkg, "LabelSet", "SetAttrs")
	w := &feWalker{Fn: sf, MaxPath: 20000, P: p, Inline: func(c *ssa.Function, d int) bool {
		return inGrp[c] && c != set && c != setAttrs && c.Parent() == nil && d <= 2
	}}
	ends := w.Run()
	if w.Aborted || len(ends) == 0 {
		o.Undecide(r.pos(sf.Pos()), "path enumeration aborted")
		return
	}
	nAttr, good := 0, true
	for _, e := range ends {
		if e.Cut {
			continue
		}
		attrSeq := -1
		for _, c := range e.State.calls {
			isAttr := callIs(c.Call, eng, "(*LabelSet).SetAttrs")
			if !isAttr {
				if pk, nm := calleePkgName(c.Call); strings.HasSuffix(pk, "pdata/pcommon") && nm == "Range" {
					isAttr = true
				}
			}
			if isAttr && attrSeq < 0 {
				attrSeq = c.Seq
			}
		}
		if attrSeq < 0 {
			continue
		}
		nAttr++
		for _, c := range e.State.calls {
			if c.Seq > attrSeq && callIs(c.Call, eng, "(*LabelSet).Set") {
				good = false
				o.Fail(r.pos(c.Call.Pos()), "a well-known field of the record is set after the attribute maps were applied: it overwrites a container/attribute label of the same name")
			}
		}
	}
	if nAttr == 0 {
		o.Fail(r.pos(sf.Pos()), "no path through SetFromRecord applies the record's attribute maps")
		return
	}
	if good {
		o.OK("%d path(s): every Set of a well-known field precedes the attribute maps", nAttr).At(r.pos(sf.Pos()))
	}
}

// ruleFrameSizeNotJudged (ERR-PROP): the frame size read from the stream header only says how many
// bytes to read; no frame is rejected because of its size (the daemon's frames carry a timestamp
// prefix and may exceed any "chunk size").
func ruleFrameSizeNotJudged(r *Run) {
	p := r.P
	o := r.Ob("ERR-PROP", "dockerlog.(*streamIter) frame size", "no failure exit of the frame decoder is decided by the frame's size: a frame of any length is read whole")
	nx := p.Method(dockerlogPkg, "streamIter", "Next")
	if nx == nil {
		o.Fail("-", "streamIter.Next not found")
		return
	}
	nSize := 0
	good := true
	for _, fn := range funcGroup(nx) {
		var sizes []ssa.Value
		for _, c := range callsIn(fn) {
			if pk, nm := calleePkgName(c); pk == "encoding/binary" && (nm == "Uint32" || nm == "Uint64" || nm == "Uint16") {
				if v, ok := c.(*ssa.Call); ok {
					sizes = append(sizes, v)
				}
			}
		}
		if len(sizes) == 0 {
			continue
		}
		nSize += len(sizes)
		// values derived from the size
		derived := map[ssa.Value]bool{}
		var mark func(v ssa.Value, d int)
		mark = func(v ssa.Value, d int) {
			if derived[v] || d > 8 {
				return
			}
			derived[v] = true
			if v.Referrers() == nil {
				return
			}
			for _, ref := range *v.Referrers() {
				switch x := ref.(type) {
				case *ssa.Convert:
					mark(x, d+1)
				case *ssa.ChangeType:
					mark(x, d+1)
				case *ssa.BinOp:
					mark(x, d+1)
				case *ssa.UnOp:
					if x.Op == token.NOT {
						mark(x, d+1)
					}
				case *ssa.Phi:
					mark(x, d+1)
				case *ssa.Store:
					if al, ok := x.Addr.(*ssa.Alloc); ok && x.Val == v {
						for _, r2 := range *al.Referrers() {
							if u, ok := r2.(*ssa.UnOp); ok && u.Op == token.MUL {
								mark(u, d+1)
							}
						}
					}
				}
			}
		}
		for _, s := range sizes {
			mark(s, 0)
		}
		for _, b := range fn.Blocks {
			ifi, ok := b.Instrs[len(b.Instrs)-1].(*ssa.If)
			if !ok || !derived[ifi.Cond] {
				continue
			}
			for _, sc := range b.Succs {
				cur := sc
				for n := 0; n < 6; n++ {
					if _, isJ := cur.Instrs[len(cur.Instrs)-1].(*ssa.Jump); !isJ {
						break
					}
					cur = cur.Succs[0]
				}
				ret, isRet := cur.Instrs[len(cur.Instrs)-1].(*ssa.Return)
				if !isRet || len(ret.Results) == 0 {
					continue
				}
				last := ret.Results[len(ret.Results)-1]
				if !isErrorType(last.Type()) || isNilConst(last) {
					continue
				}
				good = false
				o.Fail(r.pos(ifi.Cond.Pos()), "a frame is rejected with an error depending on its size (%s)", describe(ifi.Cond, 0))
			}
		}
	}
	if nSize == 0 {
		o.Fail(r.pos(nx.Pos()), "the frame size read from the header was not found in the decoder")
		return
	}
	if good {
		o.OK("%d size read(s): the size feeds the read length only, no size-dependent failure exit", nSize).At(r.pos(nx.Pos()))
	}
}

// ruleCommaListElement (PV-ORDER): in the parser's comma-separated lists, a consumed comma is
// followed by an element: from the point where the separator was recognised and the loop goes
// round, no successful return is reachable before an element was parsed.
func ruleCommaListElement(r *Run) {
	p := r.P
	lexT := p.NamedType(lexerPkg, "TokenType")
	consts := enumConstants(lexT)
	comma, okc := consts["Comma"]
	inv := r.Ob("PV-ORDER", "logql parser comma lists inventory", "the comma-separated list loops of the parser are found")
	inv.Trivial = true
	if lexT == nil || !okc {
		inv.Fail("-", "lexer.TokenType / Comma not found")
		return
	}
	peek := p.Method(logqlPkg, "parser", "peek")
	next := p.Method(logqlPkg, "parser", "next")
	unread := p.Method(logqlPkg, "parser", "unread")
	if peek == nil || next == nil {
		inv.Fail("-", "parser.peek / parser.next not found")
		return
	}
	parserT := p.NamedType(logqlPkg, "parser")
	isParserFn := func(f *ssa.Function) bool {
		if f == nil {
			return false
		}
		for g := f; g != nil; g = g.Parent() {
			if g.Signature.Recv() != nil && parserT != nil && types.Identical(derefType(g.Signature.Recv().Type()), parserT) {
				return true
			}
		}
		return false
	}
	// an element call: a parser function that can fail and is not told which token to expect
	isElement := func(c ssa.CallInstruction) bool {
		callee := staticCallee(c)
		if callee == nil {
			// a closure of a parser function called through a local
			if mc, ok := c.Common().Value.(*ssa.MakeClosure); ok {
				callee, _ = mc.Fn.(*ssa.Function)
			}
		}
		if callee == nil || !isParserFn(callee) || callee == peek || callee == next || callee == unread {
			return false
		}
		res := callee.Signature.Results()
		if res.Len() == 0 || !isErrorType(res.At(res.Len()-1).Type()) {
			return false
		}
		if res.Len() == 1 {
			return false // consume-like: checks a fixed token
		}
		for i := 0; i < callee.Signature.Params().Len(); i++ {
			if types.Identical(callee.Signature.Params().At(i).Type(), lexT) {
				return false
			}
		}
		return true
	}
	// tokOf: the token type compared by an If condition: (value compared, constant, EQL?)
	typeCompare := func(cond ssa.Value) (tok ssa.Value, k constant.Value, eq bool, ok bool) {
		b, isB := cond.(*ssa.BinOp)
		if !isB || (b.Op != token.EQL && b.Op != token.NEQ) {
			return nil, nil, false, false
		}
		x, y := b.X, b.Y
		if _, isC := x.(*ssa.Const); isC {
			x, y = y, x
		}
		c, isC := y.(*ssa.Const)
		if !isC || c.Value == nil || !types.Identical(x.Type(), lexT) {
			return nil, nil, false, false
		}
		return x, c.Value, b.Op == token.EQL, true
	}
	// fromPeek: the compared type belongs to a token returned by peek() (the upcoming token)
	fromPeek := func(v ssa.Value) bool {
		f, base, ok := loadOfField(v)
		if !ok {
			if fl, isF := v.(*ssa.Field); isF {
				base, ok = fl.X, true
				_ = f
			}
		}
		if !ok {
			return false
		}
		base = unspill(base)
		if al, isA := base.(*ssa.Alloc); isA {
			sts := storesTo(al)
			if len(sts) == 1 {
				base = sts[0].Val
			}
		}
		c, isC := base.(*ssa.Call)
		return isC && staticCallee(c) == peek
	}
	type st struct {
		b     *ssa.BasicBlock
		known string // exact representation of the upcoming token's type, "" unknown
	}
	nSites := 0
	var fns []*ssa.Function
	for _, fn := range p.SrcFuncs() {
		if pk := pkgOfFunc(fn); pk == nil || pk.Pkg.Path() != modPath+"/"+logqlPkg || !isParserFn(fn) {
			continue
		}
		fns = append(fns, fn)
	}
	sort.Slice(fns, func(i, j int) bool { return fns[i].Pos() < fns[j].Pos() })
	for _, fn := range fns {
		nInFn := 0
		for _, b := range fn.Blocks {
			ifi, ok := b.Instrs[len(b.Instrs)-1].(*ssa.If)
			if !ok {
				continue
			}
			_, k, eq, ok := typeCompare(ifi.Cond)
			if !ok || !constant.Compare(k, token.EQL, comma) {
				continue
			}
			start := b.Succs[0]
			if !eq {
				start = b.Succs[1]
			}
			// only list loops: the comma edge lies in a loop
			if !blockReaches(start, b) {
				continue
			}
			nSites++
			nInFn++
			at := ifi.Cond.Pos()
			if bo, ok := ifi.Cond.(*ssa.BinOp); ok && !at.IsValid() {
				at = bo.X.Pos()
			}
			o := r.Ob("PV-ORDER", fmt.Sprintf("%s comma#%d", shortFuncName(fn), nInFn), "after a separating comma the list continues with an element: no successful return is reachable from the comma before an element was parsed (a dangling comma is an error)")
			seen := map[st]bool{}
			work := []st{{start, ""}}
			bad := false
			for len(work) > 0 && !bad {
				cur := work[len(work)-1]
				work = work[:len(work)-1]
				if seen[cur] {
					continue
				}
				seen[cur] = true
				known := cur.known
				stopped := false
				for _, in := range cur.b.Instrs {
					if c, ok := in.(ssa.CallInstruction); ok {
						if isElement(c) {
							stopped = true
							break
						}
						if callee := staticCallee(c); callee == next || (unread != nil && callee == unread) {
							known = ""
						}
					}
					if ret, ok := in.(*ssa.Return); ok {
						if len(ret.Results) == 0 {
							continue
						}
						last := ret.Results[len(ret.Results)-1]
						if !isErrorType(last.Type()) {
							continue
						}
						succ := false
						for _, lv := range phiLeaves(unspill(last)) {
							if isNilConst(lv) {
								succ = true
							}
						}
						if succ {
							bad = true
							o.Fail(r.pos(ret.Pos()), "a successful return is reachable after the comma at %s without parsing another element: a dangling comma is accepted", r.pos(at))
						}
					}
				}
				if stopped || bad {
					continue
				}
				if ifi2, ok := cur.b.Instrs[len(cur.b.Instrs)-1].(*ssa.If); ok {
					if tv, k2, eq2, ok := typeCompare(ifi2.Cond); ok && fromPeek(tv) {
						ks := k2.ExactString()
						if known != "" {
							// the upcoming token's type is known: the comparison is decided
							holds := (known == ks) == eq2
							if holds {
								work = append(work, st{cur.b.Succs[0], known})
							} else {
								work = append(work, st{cur.b.Succs[1], known})
							}
							continue
						}
						if eq2 {
							work = append(work, st{cur.b.Succs[0], ks}, st{cur.b.Succs[1], ""})
						} else {
							work = append(work, st{cur.b.Succs[0], ""}, st{cur.b.Succs[1], ks})
						}
						continue
					}
				}
				for _, sc := range cur.b.Succs {
					work = append(work, st{sc, known})
				}
			}
			if !bad {
				o.OK("every path from the comma reaches an element parse (or an error) before a successful return").At(r.pos(at))
			}
		}
	}
	r.count("comma_list_sites", nSites)
	inv.Check(nSites >= 4, "-", fmt.Sprintf("%d comma edges in list loops", nSites), fmt.Sprintf("only %d comma edges in list loops found, floor 4", nSites))
}

// ruleStepTimestampMillis (AF): the time stamped on a reported point keeps the grid's
// sub-second part: an integer Unix time is converted to floating point before it is scaled to
// seconds, by the unit's own factor.
func ruleStepTimestampMillis(r *Run) {
	p := r.P
	o := r.Ob("AF", "logqlmetric.ReadStepResponse point time", "a point's time is the step's timestamp in seconds with its millisecond fraction: integer Unix times are converted to float before being divided by their unit's factor")
	rs := p.Func(metricPkg, "ReadStepResponse")
	if rs == nil {
		o.Fail("-", "ReadStepResponse not found")
		return
	}
	scale := map[string]float64{"UnixMilli": 1e3, "UnixMicro": 1e6, "UnixNano": 1e9}
	n, good := 0, true
	for _, fn := range funcGroup(rs) {
		for _, c := range callsIn(fn) {
			pk, nm := calleePkgName(c)
			if pk != "time" || !strings.HasPrefix(nm, "Unix") || c.Common().Signature().Recv() == nil {
				continue
			}
			call, ok := c.(*ssa.Call)
			if !ok {
				continue
			}
			unit := nm
			n++
			if unit == "Unix" {
				good = false
				o.Fail(r.pos(call.Pos()), "the point time is taken from Time.Unix(): whole seconds, the grid's millisecond part is lost")
				continue
			}
			want := scale[unit]
			var follow func(v ssa.Value, isFloat bool, d int)
			follow = func(v ssa.Value, isFloat bool, d int) {
				if v.Referrers() == nil || d > 6 {
					return
				}
				for _, ref := range *v.Referrers() {
					switch x := ref.(type) {
					case *ssa.Convert:
						if bt, ok := x.Type().Underlying().(*types.Basic); ok && bt.Info()&types.IsFloat != 0 {
							follow(x, true, d+1)
						} else {
							follow(x, isFloat, d+1)
						}
					case *ssa.BinOp:
						other := x.Y
						if other == v {
							other = x.X
						}
						cv, isConst := constOf(other)
						if !isFloat {
							if x.Op == token.QUO || x.Op == token.REM || x.Op == token.SHR {
								good = false
								o.Fail(r.pos(x.Pos()), "the integer %s() value is divided before it is converted to floating point: the sub-second part of the step's time is truncated", unit)
							}
							continue
						}
						if x.Op == token.QUO && x.X == v && isConst {
							if f, _ := constant.Float64Val(constant.ToFloat(cv)); f != want {
								good = false
								o.Fail(r.pos(x.Pos()), "%s() is divided by %v, expected %v to give seconds", unit, f, want)
							}
						}
					}
				}
			}
			follow(call, false, 0)
		}
	}
	if n == 0 {
		o.Fail(r.pos(rs.Pos()), "no Unix time conversion found in ReadStepResponse and its helpers")
		return
	}
	if good {
		o.OK("%d conversion(s): float64(UnixMilli())/1000 (conversion before division, unit's own factor)", n).At(r.pos(rs.Pos()))
	}
}
