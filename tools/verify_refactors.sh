#!/bin/bash
export GOFLAGS=-mod=mod GOPROXY=off GOSUMDB=off GOTOOLCHAIN=local; unset GOWORK
W=/var/tmp/rfverify; git -C /repo worktree remove --force $W 2>/dev/null; git -C /repo worktree add -q --detach $W HEAD
cd $W
for d in "$@"; do
  git checkout -q -- . ; git clean -fdq
  if ! git apply $d/patch.diff 2>/dev/null; then echo "$d: PATCH FAILS"; continue; fi
  if ! go build ./... 2>/dev/null; then echo "$d: BUILD FAILS"; continue; fi
  f=$(go test -vet=off -count=1 ./... 2>&1 | grep -c -E "^(FAIL|---)")
  v=$(go vet ./... 2>&1 | grep -c -v "^#")
  echo "$d: suite_failures=$f vet_lines=$v"
done
cd /; git -C /repo worktree remove --force $W
