// Triage test for D1/D2 (place in internal/dockerlog). Not a check.
package dockerlog

import (
	"regexp"
	"testing"

	"github.com/stretchr/testify/require"

	"github.com/tdakkota/docker-logql/internal/logql"
)

func TestTriageD1D2(t *testing.T) {
	with := containerLabels{labels: map[string]string{"foo": "bar"}}
	other := containerLabels{labels: map[string]string{"foo": "baz"}}
	none := containerLabels{labels: map[string]string{}}
	ne := []logql.LabelMatcher{{Label: "foo", Op: logql.OpNotEq, Value: "bar"}}
	require.False(t, with.Match(ne))
	require.True(t, other.Match(ne))
	require.True(t, none.Match(ne))
	empty := []logql.LabelMatcher{{Label: "foo", Op: logql.OpEq, Value: ""}}
	require.False(t, with.Match(empty))
	require.True(t, none.Match(empty))
	nre := []logql.LabelMatcher{{Label: "foo", Op: logql.OpNotRe, Value: "ba.", Re: regexp.MustCompile("^(?:ba.)$")}}
	require.False(t, with.Match(nre))
	require.True(t, none.Match(nre))
}
