package main

func init() {
	register(&PropSpec{
		ID:          "C07",
		Technique:   "SSA summaries of the rewriting processors, role/provenance rules relating parser positions to engine uses (label_format direction, template bindings), ordering by dominance, sibling truth tables for drop/keep",
		Explanation: "Decides the structural clauses of the rewriting stages for all lines: none of them drops a line; label_format's left identifier is the label created (rename source read and removed; template expanded over the labels after the same stage's renames); __line__/__timestamp__ bound to the per-line state stored before Execute; a failing line_format template keeps the line and flags __error__; drop deletes exactly the selected labels and keep exactly the others, with one shared selection predicate; decolorize returns the ANSI regexp's replacement of the line.",
		Decided: []string{
			"PV-FRESH: compileTemplate returns a template built by template.New in that call (never shared between stages); PV-WHOLE: the loops over a stage's rewrite list cannot be left early",
			"PV-API: pcommon.Value.Str() only under Type() == ValueTypeStr (label values are read with AsString())",
			"LP-CLASS / LP-ERRPATH: label_format, drop, keep are (Param, AlwaysTrue); line_format, decolorize AlwaysTrue; line_format returns the input line and SetError on template failure",
			"PV-ROLE: parser lhs/rhs of label_format agree with the engine's Get/Set/Delete fields; LabelTemplate.Label is the Set target; rename -> AsMap -> Execute -> Set(buf.String())",
			"PV-ROLE/PV-CONST/PV-ORDER: __line__/__timestamp__ -> currentLine/currentTimestamp; missingkey=zero; lf.ts, lf.line stored and buffer reset before Execute; accessors read that state",
			"CH-SIB: Drop deletes on dropPair, Keep on !keepPair, applied to the iterated label; dropPair == keepPair as truth tables",
			"PV-PAIR: Decolorize returns ansiRegex.ReplaceAllString(line, \"\"); CH-MAP: keep/drop parser distinguishes matchers from names for all four operators",
			"PV-ROLE: drop/keep value matchers are built in the label (whole value) flavour from one selector; label_format writes its label only when the template ran cleanly; PV-ALIAS: no pcommon value is mutated unless created in the same function",
			"no Delete outside the selection predicate's verdict in drop/keep; no strconv.Unquote (raw-string templates keep \r); __error__ first-wins guard of SetError",
			"PV-PAIR groupEntries: the stream key is LabelSet.String() (injective, order-independent), so entries with different rewritten label sets never share a stream; rename deletes the source in the iteration that read it",
			"PV-API label regexps are compiled anchored; CH-MAP string matcher table (=~ is a regexp match, case flags included)",
			"LP-PIPE BuildPipeline: one processor per stage, in order (no reordering of filters across rewriting stages)",
			"PV-WHOLE LabelSet.Range visits every label; PV-ROLE template functions bound to strings.* carry that function's name",
			"PV-ROLE templates are executed over set.AsMap() on every path",
			"PV-WHOLE (ruleLPOffload) the engine builds its pipeline from the stage list as written: two drop stages stay two stages",
			"PV-WHOLE drop/keep scan every record's label set (no fast path that skips the value matchers)",
		},
		NotDecided: []string{"what text/template and sprig functions compute", "whether ansiPattern matches exactly the ANSI colour sequences (regexp semantics)"},
		Rules: func(r *Run) {
			ruleLPClass(r, func(s string) bool {
				switch s {
				case "LabelFormatExpr", "DropLabelsExpr", "KeepLabelsExpr", "LineFormat", "DecolorizeExpr":
					return true
				}
				return false
			})
			ruleErrorPathKeepsLine(r, []string{"LineFormat"})
			ruleLabelFormatDirection(r)
			ruleTemplateBinding(r)
			ruleDropKeep(r)
			ruleTemplatePerStage(r)
			ruleRewriteLoopsWhole(r)
			ruleValueStrGuarded(r)
			ruleDecolorize(r)
			ruleCHParseSites3(r)
			ruleDropKeepMatchers(r)
			ruleNoInPlaceValueMutation(r, []string{enginePkg, metricPkg}, 2)
			ruleNoStdUnquote(r)      // a template written as a raw string keeps its carriage returns
			ruleSetErrorFirstWins(r) // a failing template is flagged with __error__ unless an error is already recorded
			ruleGroupEntries(r)      // an entry is reported under the labels its rewriting stages left: the stream key tells label sets apart
			ruleLabelSetString(r)
			ruleLabelRegexAnchoring(r)
			ruleCHBuilders(r) // the value matchers of drop/keep implement their operator
			ruleLPPipe(r)     // the stages run in the order they were written
			ruleLabelSetRangeWhole(r)
			ruleTemplateStringsByName(r)
			ruleTemplateDataIsLabels(r)
			ruleLPOffload(r) // the stage list the pipeline is built from is the query's: stages are not merged or dropped on the way
			ruleDropKeepAlwaysScan(r)
		},
	})
}
