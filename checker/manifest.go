package main

import (
	"bufio"
	"encoding/json"
	"fmt"
	"os"
	"path/filepath"
	"sort"
	"strings"
)

// writeManifest regenerates /verif/MANIFEST.json from the registry.
func writeManifest() int {
	// all property ids
	f, err := os.Open(filepath.Join(verifDir(), "properties.jsonl"))
	if err != nil {
		fmt.Fprintln(os.Stderr, err)
		return 2
	}
	defer f.Close()
	var ids []string
	sc := bufio.NewScanner(f)
	sc.Buffer(make([]byte, 1<<20), 1<<24)
	for sc.Scan() {
		var rec struct {
			ID string `json:"id"`
		}
		if json.Unmarshal(sc.Bytes(), &rec) == nil && rec.ID != "" {
			ids = append(ids, rec.ID)
		}
	}
	sort.Strings(ids)
	env := "GOFLAGS=-mod=mod GOPROXY=off GOSUMDB=off GOTOOLCHAIN=local GOWORK=off"
	var checks []map[string]any
	na := []map[string]any{}
	var claimed []string
	for _, id := range ids {
		s := registry[id]
		if s == nil || s.NotApplicable != "" {
			reason := "check not built yet: the static rules designed for this property (DESIGN.md section 3) are not implemented in this revision, so nothing is claimed"
			if s != nil {
				reason = s.NotApplicable
			}
			na = append(na, map[string]any{"property_id": id, "reason": reason})
			continue
		}
		claimed = append(claimed, id)
		text := s.Explanation + " Decided clauses: " + strings.Join(s.Decided, "; ") + ". NOT decided (assumed): " + strings.Join(s.NotDecided, "; ") + "."
		checks = append(checks, map[string]any{
			"property_id":         id,
			"quick_cmd":           "./bin/verifcheck " + id + " --tier quick",
			"thorough_cmd":        "./bin/verifcheck " + id + " --tier thorough",
			"evidence_file":       "/verif/evidence/" + id + ".json",
			"replay_cmd_template": "./bin/verifcheck explain {path}",
			"engine":              "verifcheck",
			"level_claimed": map[string]any{
				"category":   "other",
				"text":       text,
				"design_ref": "DESIGN.md section 3, " + id,
			},
			"level_note": "Trusted base: go/types and go/ssa (x/tools v0.29.0); documented contracts of the standard library and named third-party packages; the specification tables compiled into the checker; the hand arguments of DESIGN.md Appendix A. The check decides the listed structural necessary conditions for all inputs/schedules from /repo's current source; it does not decide the behaviour as a whole.",
			"technique":  s.Technique,
		})
	}
	m := map[string]any{
		"version":   1,
		"setup_cmd": "cd /verif/checker && " + env + " go build -o /verif/bin/verifcheck .",
		"hooks": map[string]any{
			"guard":            "verif",
			"enable":           "none needed: the analysis is external to /repo (no instrumentation); checks load /repo's working tree with go/packages",
			"baseline_off_cmd": "cd /repo && " + env + " go test -mod=mod -json -vet=off -count=1 -timeout 25m ./...",
			"source_commits":   []string{},
			"add_only":         true,
		},
		"engines": []map[string]any{{
			"name":              "verifcheck",
			"path":              "/verif/checker",
			"serves_properties": claimed,
			"kind_free_text":    "repository-specific static analyser over go/packages + go/ssa (+ VTA call graph): typestate, dataflow/taint, enum-table chains, finite-case guard tables, provenance/role rules",
		}},
		"checks":         checks,
		"not_applicable": na,
		"notes":          "All checks are static analyses of /repo's current working tree; nothing under /repo is executed. Known/fixed defects are listed in /verif/known_findings.json. See DESIGN.md.",
	}
	writeJSON(filepath.Join(verifDir(), "MANIFEST.json"), m)
	return 0
}
